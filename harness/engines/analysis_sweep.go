package engines

// analysis_sweep.go — part of engine `analysis` (C18): per-language exhaustive small-alphabet
// sweep and mutation of real words.
//
// Random script-aware text reaches a particular short word shape (say five letters `?erie`)
// with probability ~26^-4 per token, so rule-based stemmers and normalisers, whose branches are
// guarded by lengths and suffixes, are swept exhaustively instead: for every language package
// under analysis/lang the letters its rule code mentions are read from the Go source at run
// time (go/parser over the non-test files of $VERIF_REPO/analysis/lang/<lang>: rune and short
// string literals, ranked by frequency), every word up to a small length over the top letters
// goes through each stemmer/normaliser filter of that language (one-token stream) and, up to a
// cap, through the bundled analyzer; the words of the package's *_test.go tables and stop-word
// list are mutated with the same letters and with the suffixes found in the rule literals.
// Oracle only: no panic, offsets/increments contract, determinism on a sample; a small sample
// goes on to the Coq contract checker through oneFilterCall / analyzeOne.

import (
	"bytes"
	"fmt"
	"go/ast"
	"go/parser"
	"go/token"
	"math/rand"
	"os"
	"path/filepath"
	"sort"
	"strconv"
	"strings"
	"time"
	"unicode"
	"unicode/utf8"

	"github.com/blugelabs/bluge/analysis"

	"verif/harness/cq"
)

type analysisLangInfo struct {
	lang     string
	alphabet []rune   // letters the rule code mentions, most frequent first
	suffixes []string // short string literals of the rule code
	seeds    []string // words of the test tables and of the stop-word list
}

func analysisRepoRoot() string {
	if r := os.Getenv("VERIF_REPO"); r != "" {
		return r
	}
	return "/repo"
}

func analysisIsWordRune(r rune) bool {
	return unicode.IsLetter(r) || unicode.IsMark(r)
}

// analysisLoadLang reads the literals of one language package.
func analysisLoadLang(lang string, nLetters int) analysisLangInfo {
	info := analysisLangInfo{lang: lang}
	dir := filepath.Join(analysisRepoRoot(), "analysis", "lang", lang)
	files, _ := filepath.Glob(filepath.Join(dir, "*.go"))
	sort.Strings(files)
	ruleFreq := map[rune]int{}
	seedFreq := map[rune]int{}
	sufSeen := map[string]bool{}
	seedSeen := map[string]bool{}
	fset := token.NewFileSet()
	for _, fn := range files {
		base := filepath.Base(fn)
		isTest := strings.HasSuffix(base, "_test.go")
		isWords := strings.HasPrefix(base, "stop_words") || strings.HasPrefix(base, "articles")
		f, err := parser.ParseFile(fset, fn, nil, 0)
		if err != nil {
			continue
		}
		ast.Inspect(f, func(n ast.Node) bool {
			bl, ok := n.(*ast.BasicLit)
			if !ok {
				return true
			}
			switch bl.Kind {
			case token.CHAR:
				if isTest || isWords {
					return true
				}
				if c, _, _, err := strconv.UnquoteChar(bl.Value[1:len(bl.Value)-1], '\''); err == nil && analysisIsWordRune(c) {
					ruleFreq[unicode.ToLower(c)] += 2
				}
			case token.INT:
				// rune tables written as numbers (0x30fb ...)
				if isTest || isWords {
					return true
				}
				if v, err := strconv.ParseInt(bl.Value, 0, 32); err == nil && v >= 0x100 && v <= unicode.MaxRune && analysisIsWordRune(rune(v)) {
					ruleFreq[unicode.ToLower(rune(v))]++
				}
			case token.STRING:
				s, err := strconv.Unquote(bl.Value)
				if err != nil {
					return true
				}
				if isTest || isWords {
					for _, line := range strings.Split(s, "\n") {
						if i := strings.IndexAny(line, "#|"); i >= 0 {
							line = line[:i]
						}
						for _, w := range strings.Fields(line) {
							if utf8.RuneCountInString(w) <= 24 && !seedSeen[w] {
								seedSeen[w] = true
								info.seeds = append(info.seeds, w)
								for _, r := range w {
									if analysisIsWordRune(r) {
										seedFreq[unicode.ToLower(r)]++
									}
								}
							}
						}
					}
					return true
				}
				if n := utf8.RuneCountInString(s); n >= 1 && n <= 10 && !strings.ContainsAny(s, " /.%") {
					for _, r := range s {
						if analysisIsWordRune(r) {
							ruleFreq[unicode.ToLower(r)]++
						}
					}
					if !sufSeen[s] {
						sufSeen[s] = true
						info.suffixes = append(info.suffixes, s)
					}
				}
			}
			return true
		})
	}
	rank := func(m map[rune]int) []rune {
		rs := make([]rune, 0, len(m))
		for r := range m {
			rs = append(rs, r)
		}
		sort.Slice(rs, func(i, j int) bool {
			if m[rs[i]] != m[rs[j]] {
				return m[rs[i]] > m[rs[j]]
			}
			return rs[i] < rs[j]
		})
		return rs
	}
	// letters of the rule code that also occur in the package's own words first (a rule table may
	// mention other scripts or plain identifiers), then the letters of the word lists (rule code
	// without literals: wrappers of third-party stemmers), then the remaining rule letters
	have := map[rune]bool{}
	take := func(rs []rune, keep func(rune) bool) {
		for _, r := range rs {
			if len(info.alphabet) < nLetters && !have[r] && keep(r) {
				info.alphabet = append(info.alphabet, r)
				have[r] = true
			}
		}
	}
	take(rank(ruleFreq), func(r rune) bool { return seedFreq[r] > 0 || len(seedFreq) == 0 })
	take(rank(seedFreq), func(rune) bool { return true })
	take(rank(ruleFreq), func(rune) bool { return true })
	sort.Strings(info.suffixes)
	return info
}

// analysisSweepLangs: every package under analysis/lang with a stemmer, normaliser or analyzer
var analysisSweepLangs = []string{"ar", "cjk", "ckb", "da", "de", "en", "es", "fa", "fi", "fr", "hi", "hu", "in", "it", "nl", "no", "pt", "ro", "ru", "sv", "tr"}

type analysisSweepTarget struct {
	name   string
	filter func() analysis.TokenFilter // nil for an analyzer
	an     func() *analysis.Analyzer
}

func analysisSweepTargets(lang string) (filters []analysisSweepTarget, an *analysisSweepTarget) {
	generic := map[string]bool{"Porter": true, "CamelCase": true, "DictCompound(all)": true, "DictCompound(longest)": true}
	want := lang
	if lang == "in" {
		want = "hi" // in.Normalize is registered with the Devanagari generator
	}
	for _, f := range analysisBundledTokenFilters() {
		if f.lang != want || generic[f.name] {
			continue
		}
		if (lang == "in") != strings.HasPrefix(f.name, "in.") {
			continue
		}
		f := f
		filters = append(filters, analysisSweepTarget{name: f.name, filter: f.mk})
	}
	if lang == "en" {
		for _, f := range analysisBundledTokenFilters() {
			if f.name == "Porter" {
				f := f
				filters = append(filters, analysisSweepTarget{name: f.name, filter: f.mk})
			}
		}
	}
	for _, a := range analysisBundledAnalyzers() {
		if a.name == lang {
			a := a
			an = &analysisSweepTarget{name: a.name, an: a.mk}
		}
	}
	return filters, an
}

type analysisSweepState struct {
	e        *analysisEngine
	failures map[string]int
	calls    int
}

func (st *analysisSweepState) fail(key, reason, component, word string) {
	st.failures[key]++
	if st.failures[key] <= 3 { // the first few per component: the rest only repeat the defect
		st.e.w.OracleFail(key, reason, map[string]interface{}{"component": component, "class": "sweep", "input": analysisQ([]byte(word))})
	}
}

func analysisTokenTypeOf(word string) analysis.TokenType {
	for _, r := range word {
		if unicode.Is(unicode.Han, r) || unicode.Is(unicode.Hiragana, r) || unicode.Is(unicode.Katakana, r) || unicode.Is(unicode.Hangul, r) {
			return analysis.Ideographic
		}
	}
	return analysis.AlphaNumeric
}

// filterWord: one word through one filter instance, as a one-token stream
func (st *analysisSweepState) filterWord(t analysisSweepTarget, f analysis.TokenFilter, word string, twice bool) {
	run := func() (out []analysisTokSnap, pan interface{}) {
		defer func() { pan = recover() }()
		term := append(make([]byte, 0, len(word)), word...)
		in := analysis.TokenStream{&analysis.Token{Start: 0, End: len(word), Term: term, PositionIncr: 1, Type: analysisTokenTypeOf(word)}}
		return analysisSnapTokens(f.Filter(in)), nil
	}
	st.calls++
	out, pan := run()
	if pan != nil {
		st.fail("analysis-panic:"+t.name, fmt.Sprintf("panic: %v", pan), t.name, word)
		return
	}
	if ok, why := analysisTokOK(len(word), out); !ok {
		st.fail("analysis-offsets:"+t.name, why, t.name, word)
		return
	}
	if twice {
		out2, pan2 := run()
		if pan2 != nil || !analysisSnapsEqual(out, out2) {
			st.fail("analysis-determinism:"+t.name, "two runs on the same word differ", t.name, word)
		}
	}
}

// analyzeWord: one word through the bundled analyzer of the language
func (st *analysisSweepState) analyzeWord(t analysisSweepTarget, a *analysis.Analyzer, word string, twice bool) {
	run := func() (out []analysisTokSnap, L int, pan interface{}) {
		defer func() { pan = recover() }()
		text := append(make([]byte, 0, len(word)), word...)
		L = len(text)
		if len(a.CharFilters) > 0 { // the length of the text the tokenizer sees
			seen := append([]byte{}, text...)
			for _, cf := range a.CharFilters {
				seen = cf.Filter(seen)
			}
			L = len(seen)
		}
		return analysisSnapTokens(a.Analyze(text)), L, nil
	}
	st.calls++
	out, L, pan := run()
	if pan != nil {
		st.fail("analysis-panic:"+t.name+"/Analyze", fmt.Sprintf("panic: %v", pan), t.name, word)
		return
	}
	if ok, why := analysisTokOK(L, out); !ok {
		st.fail("analysis-offsets:"+t.name+"/Analyze", why, t.name, word)
		return
	}
	if twice {
		out2, _, pan2 := run()
		if pan2 != nil || !analysisSnapsEqual(out, out2) {
			st.fail("analysis-determinism:"+t.name, "two analyses of the same word differ", t.name, word)
		}
	}
}

// analysisEnumWords calls visit for every word of 1..maxLen letters over the alphabet,
// shorter words first; visit returns false to stop.
func analysisEnumWords(alphabet []rune, maxLen int, visit func(word string, n int) bool) {
	k := len(alphabet)
	if k == 0 {
		return
	}
	for n := 1; n <= maxLen; n++ {
		idx := make([]int, n)
		buf := make([]rune, n)
		for {
			for i, j := range idx {
				buf[i] = alphabet[j]
			}
			if !visit(string(buf), n) {
				return
			}
			p := n - 1
			for p >= 0 {
				idx[p]++
				if idx[p] < k {
					break
				}
				idx[p] = 0
				p--
			}
			if p < 0 {
				break
			}
		}
	}
}

// analysisMutations: variants of a real word — letters and rule suffixes appended, the last
// one to three runes removed or replaced
func analysisMutations(rng *rand.Rand, word string, alphabet []rune, suffixes []string, visit func(string)) {
	rs := []rune(word)
	tails := make([]string, 0, len(alphabet)+12)
	for _, a := range alphabet {
		tails = append(tails, string(a))
	}
	for i := 0; i < 10 && len(suffixes) > 0; i++ {
		tails = append(tails, suffixes[rng.Intn(len(suffixes))])
	}
	if len(alphabet) > 0 {
		tails = append(tails, string([]rune{alphabet[rng.Intn(len(alphabet))], alphabet[rng.Intn(len(alphabet))]}))
	}
	visit(word)
	for cut := 0; cut <= 3 && cut <= len(rs); cut++ {
		stem := string(rs[:len(rs)-cut])
		if cut > 0 {
			visit(stem)
		}
		for _, t := range tails {
			visit(stem + t)
		}
	}
}

// sweep runs the per-language sweeps.  letters/maxLen bound the exhaustive part
// (letters^maxLen words per filter), analyzerCap the number of words through the analyzer,
// nSeeds the number of real words mutated.
func (e *analysisEngine) sweep(letters, maxLen, analyzerCap, nSeeds, samplePerLang int) {
	st := &analysisSweepState{e: e, failures: map[string]int{}}
	for _, lang := range analysisSweepLangs {
		info := analysisLoadLang(lang, letters)
		filters, an := analysisSweepTargets(lang)
		e.w.Count("sweep_alphabet:"+lang+":"+string(info.alphabet), 1)
		if len(info.alphabet) == 0 && len(info.seeds) == 0 {
			// the source of the language package could not be read: the tie is broken, say so
			e.w.OracleFail("analysis-sweep-source:"+lang, "no literals found under "+filepath.Join(analysisRepoRoot(), "analysis", "lang", lang), nil)
			continue
		}
		seeds := append([]string{}, info.seeds...)
		e.rng.Shuffle(len(seeds), func(i, j int) { seeds[i], seeds[j] = seeds[j], seeds[i] })
		if len(seeds) > nSeeds {
			seeds = seeds[:nSeeds]
		}
		var sample []string
		before := st.calls
		fin, pan := cq.Guard(240*time.Second, func() {
			fs := make([]analysis.TokenFilter, len(filters))
			for i, t := range filters {
				fs[i] = t.filter()
			}
			var a *analysis.Analyzer
			if an != nil {
				a = an.an()
			}
			nAn := 0
			count := 0
			one := func(word string, analyzerToo bool) {
				count++
				twice := count%101 == 0
				for i, t := range filters {
					st.filterWord(t, fs[i], word, twice)
				}
				if a != nil && analyzerToo {
					st.analyzeWord(*an, a, word, twice)
				}
				if count%997 == 0 && len(sample) < samplePerLang {
					sample = append(sample, word)
				}
			}
			// (a) exhaustive: all short words over the letters of the rule code
			analysisEnumWords(info.alphabet, maxLen, func(word string, n int) bool {
				toAn := nAn < analyzerCap
				if toAn {
					nAn++
				}
				one(word, toAn)
				return true
			})
			// (b) real words, mutated
			for _, w := range seeds {
				analysisMutations(e.rng, w, info.alphabet, info.suffixes, func(v string) { one(v, true) })
			}
		})
		e.w.OracleEval(st.calls - before)
		e.w.Count("sweep_calls:"+lang, st.calls-before)
		if !fin {
			e.w.Abort("analysis-hang:sweep:"+lang, "the sweep of one language did not finish within 240s", lang)
		}
		if pan != nil {
			e.w.OracleFail("analysis-panic:sweep:"+lang, fmt.Sprint(pan), lang)
		}
		// a small sample goes through the full per-call oracle and on to the Coq contract checker
		for _, w := range sample {
			in := analysisInput{"sweep:" + lang, []byte(w)}
			for _, t := range filters {
				text := []byte(w)
				tin := []analysisTokSnap{{0, len(w), []byte(w), 1, int(analysisTokenTypeOf(w)), false}}
				e.oneFilterCall(t.name, t.filter, in, text, tin)
			}
			if an != nil {
				e.analyzeOne(an.name, an.an, in)
			}
		}
	}
	for k, n := range st.failures {
		e.w.Count("sweep_failures:"+k, n)
	}
	_ = bytes.Equal
}
