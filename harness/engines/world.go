package engines

// world.go — shared machinery of the index-level engines (C01–C06, C11, C14): a writer under a
// simulated (or real) directory with full recording, batch generation over a small id universe,
// observation of readers, conversion of the recorded root history into Coq trace events.

import (
	"context"
	"fmt"
	"math/rand"
	"os"
	"path/filepath"
	"sort"
	"strconv"
	"strings"
	"sync"
	"sync/atomic"
	"time"

	"github.com/blugelabs/bluge"
	"github.com/blugelabs/bluge/index"
	"github.com/blugelabs/bluge/index/mergeplan"

	"verif/harness/cq"
	"verif/harness/sim"
)

// ---- global trace routing (index.VerifTrace is a package variable) ----

var traceMu sync.Mutex
var traceRec *sim.Recorder
var tracePending func(ev *index.VerifEvent) int // resolves an intro-segment event to a batch key

func init() {
	index.VerifTrace = func(ev *index.VerifEvent) {
		traceMu.Lock()
		rec, pend := traceRec, tracePending
		traceMu.Unlock()
		if rec == nil {
			return
		}
		e := &sim.Event{Kind: ev.Kind, V: ev, Batch: -1}
		if ev.Kind == "intro-segment" && pend != nil {
			e.Batch = pend(ev)
		}
		rec.Add(e)
	}
}

// ---- documents and batches ----

type DocOp struct {
	Kind string // ins | upd | del
	ID   int    // index into the id universe; >= 1000000: marker ids never inserted
	V    int    // unique version value for ins/upd
}

type BatchSpec struct {
	Key int
	Ops []DocOp
}

func idString(k int) string {
	if k >= 1000000 {
		return "m" + strconv.Itoa(k-1000000)
	}
	return "d" + strconv.Itoa(k)
}

func parseID(s string) int {
	if strings.HasPrefix(s, "m") {
		n, _ := strconv.Atoi(s[1:])
		return 1000000 + n
	}
	n, _ := strconv.Atoi(strings.TrimPrefix(s, "d"))
	return n
}

type DV struct{ ID, V int }

func parseDoc(s string) DV {
	p := strings.SplitN(s, "\x00", 2)
	v := 0
	if len(p) > 1 {
		v, _ = strconv.Atoi(p[1])
	}
	return DV{parseID(p[0]), v}
}

func makeDoc(id, v int) *bluge.Document {
	d := bluge.NewDocument(idString(id))
	d.AddField(bluge.NewKeywordField("v", strconv.Itoa(v)).StoreValue())
	// a text field so that the segment has more than the identifier to index
	d.AddField(bluge.NewTextField("t", fmt.Sprintf("w%d common x%d", v%7, id)))
	return d
}

func (b BatchSpec) build() *index.Batch {
	bb := bluge.NewBatch()
	for _, op := range b.Ops {
		switch op.Kind {
		case "ins":
			bb.Insert(makeDoc(op.ID, op.V))
		case "upd":
			bb.Update(bluge.Identifier(idString(op.ID)), makeDoc(op.ID, op.V))
		case "del":
			bb.Delete(bluge.Identifier(idString(op.ID)))
		}
	}
	return bb
}

// docs and id terms in the order the batch carries them
func (b BatchSpec) content() (docs []DV, ids []int) {
	for _, op := range b.Ops {
		switch op.Kind {
		case "ins":
			docs = append(docs, DV{op.ID, op.V})
		case "upd":
			docs = append(docs, DV{op.ID, op.V})
			ids = append(ids, op.ID)
		case "del":
			ids = append(ids, op.ID)
		}
	}
	return
}

// applyAbstract: the abstract index of the property text.
func applyAbstract(A []DV, b BatchSpec) []DV {
	docs, ids := b.content()
	named := map[int]bool{}
	for _, i := range ids {
		named[i] = true
	}
	var out []DV
	for _, d := range A {
		if !named[d.ID] {
			out = append(out, d)
		}
	}
	return append(out, docs...)
}

func sortedDV(a []DV) []DV {
	out := append([]DV{}, a...)
	sort.Slice(out, func(i, j int) bool {
		if out[i].ID != out[j].ID {
			return out[i].ID < out[j].ID
		}
		return out[i].V < out[j].V
	})
	return out
}

func sameDV(a, b []DV) bool {
	x, y := sortedDV(a), sortedDV(b)
	if len(x) != len(y) {
		return false
	}
	for i := range x {
		if x[i] != y[i] {
			return false
		}
	}
	return true
}

// ---- the world ----

type WorldOpts struct {
	DirKind        string // sim | fs | mem
	Path           string // for fs
	Unsafe         bool
	SegVersion     uint32 // 1 or 2
	Merges         string // off | small | default
	MemMergeMin    int    // MinSegmentsForInMemoryMerge (0 = default 2)
	KeepN          int    // deletion policy N (0 = default 1)
	Universe       int
	OpDelayUs      int // random delay before each simulated directory operation
	Image          map[string][]byte
	Poison         bool // SimDir wipes the bytes of a segment when its handle is closed (use-after-release shows)
	HoldMergeIntro bool // park the merger at EventKindMergeTaskIntroductionStart until ReleaseMerge (or 3 s)
}

type World struct {
	O          WorldOpts
	Rec        *sim.Recorder
	Dir        *sim.SimDir
	RDir       *sim.RecDir // DirKind fsrec: the real FileSystemDirectory behind the recorder
	Cfg        bluge.Config
	W          *bluge.Writer
	rng        *rand.Rand
	mu         sync.Mutex
	pending    []pendingBatch
	nextKey    int
	nextV      int
	Specs      map[int]BatchSpec
	AsyncErrs  []string
	Observed   []Observation
	afterRet   []afterRet
	mergeGate  chan struct{}
	inflight   int32 // Batch calls in progress
	MergesHeld int
}

type afterRet struct {
	key   int
	epoch uint64
}

type pendingBatch struct {
	key  int
	docs []string
	ids  []string
}

func NewWorld(o WorldOpts, rng *rand.Rand) *World {
	w := &World{O: o, Rec: &sim.Recorder{}, rng: rng, Specs: map[int]BatchSpec{}, nextV: 1}
	if o.Universe == 0 {
		w.O.Universe = 5
	}
	return w
}

func (w *World) config() bluge.Config {
	var cfg bluge.Config
	switch w.O.DirKind {
	case "sim":
		if w.Dir == nil {
			if w.O.Image != nil {
				w.Dir = sim.FromImage(w.O.Image, w.Rec)
			} else {
				w.Dir = sim.NewSimDir(w.Rec)
			}
			if w.O.OpDelayUs > 0 {
				delayRng := rand.New(rand.NewSource(w.rng.Int63()))
				var dm sync.Mutex
				w.Dir.Gate = func(op sim.Op) {
					dm.Lock()
					d := delayRng.Intn(w.O.OpDelayUs + 1)
					dm.Unlock()
					time.Sleep(time.Duration(d) * time.Microsecond)
				}
			}
		}
		w.Dir.PoisonOnClose = w.O.Poison
		d := w.Dir
		cfg = bluge.DefaultConfigWithDirectory(func() index.Directory { return d })
	case "fsrec":
		if w.RDir == nil {
			os.MkdirAll(w.O.Path, 0o755)
			for k, v := range w.O.Image {
				var id uint64
				fmt.Sscanf(k[5:], "%x", &id)
				os.WriteFile(filepath.Join(w.O.Path, fmt.Sprintf("%012x%s", id, k[:4])), v, 0o644)
			}
			w.RDir = sim.NewRecDir(w.O.Path, w.Rec)
			if w.O.OpDelayUs > 0 {
				delayRng := rand.New(rand.NewSource(w.rng.Int63()))
				var dm sync.Mutex
				w.RDir.Gate = func(op sim.Op) {
					dm.Lock()
					d := delayRng.Intn(w.O.OpDelayUs + 1)
					dm.Unlock()
					time.Sleep(time.Duration(d) * time.Microsecond)
				}
			}
		}
		rd := w.RDir
		cfg = bluge.DefaultConfigWithDirectory(func() index.Directory { return rd })
	case "fs":
		cfg = bluge.DefaultConfig(w.O.Path)
	default:
		cfg = bluge.InMemoryOnlyConfig()
	}
	ic := cfg.VerifIndexConfig()
	if w.O.Unsafe {
		ic = ic.WithUnsafeBatches()
	}
	if w.O.SegVersion == 2 {
		ic = ic.WithSegmentVersion(2)
	}
	switch w.O.Merges {
	case "off":
		ic.MergePlanOptions = mergeplan.Options{MaxSegmentsPerTier: 100000, MaxSegmentSize: 5000000, TierGrowth: 10, SegmentsPerMergeTask: 10, FloorSegmentSize: 2000, ReclaimDeletesWeight: 2,
			CalcBudget: func(int64, int64, *mergeplan.Options) int { return 1 << 30 }} // never over budget: no file merges
		ic.MinSegmentsForInMemoryMerge = 1 << 30
	case "small":
		ic.MergePlanOptions = mergeplan.Options{MaxSegmentsPerTier: 2, MaxSegmentSize: 5000000, TierGrowth: 2, SegmentsPerMergeTask: 3, FloorSegmentSize: 2, ReclaimDeletesWeight: 2}
	}
	if w.O.MemMergeMin > 0 {
		ic.MinSegmentsForInMemoryMerge = w.O.MemMergeMin
	}
	if w.O.KeepN > 0 {
		n := w.O.KeepN
		ic.DeletionPolicyFunc = func() index.DeletionPolicy { return index.NewKeepNLatestDeletionPolicy(n) }
	}
	if w.O.HoldMergeIntro {
		if w.mergeGate == nil {
			w.mergeGate = make(chan struct{}, 64)
		}
		ic.EventCallback = func(e index.Event) {
			if e.Kind == index.EventKindMergeTaskIntroductionStart {
				w.mu.Lock()
				w.MergesHeld++
				w.mu.Unlock()
				select {
				case <-w.mergeGate:
				case <-time.After(3 * time.Second):
				}
			}
		}
	}
	ic.AsyncError = func(err error) {
		w.mu.Lock()
		w.AsyncErrs = append(w.AsyncErrs, err.Error())
		w.mu.Unlock()
		w.Rec.Add(&sim.Event{Kind: "async-error", Err: err.Error()})
	}
	cfg = cfg.VerifWithIndexConfig(ic)
	w.Cfg = cfg
	return cfg
}

func (w *World) attach() {
	traceMu.Lock()
	traceRec = w.Rec
	tracePending = w.resolvePending
	traceMu.Unlock()
}

func detachTrace() {
	traceMu.Lock()
	traceRec = nil
	tracePending = nil
	traceMu.Unlock()
}

func (w *World) Open() error {
	cfg := w.config()
	w.attach()
	wr, err := bluge.OpenWriter(cfg)
	if err != nil {
		return err
	}
	w.W = wr
	return nil
}

func (w *World) resolvePending(ev *index.VerifEvent) int {
	w.mu.Lock()
	defer w.mu.Unlock()
	for i, p := range w.pending {
		if eqStrings(p.docs, ev.NewDocs) && eqStrings(p.ids, ev.IDTerms) {
			w.pending = append(w.pending[:i], w.pending[i+1:]...)
			return p.key
		}
	}
	return -1
}

func eqStrings(a, b []string) bool {
	if len(a) != len(b) {
		return false
	}
	for i := range a {
		if a[i] != b[i] {
			return false
		}
	}
	return true
}

// GenBatch draws a batch over the id universe.  update-heavy, with deletes, inserts of ids that may
// already be live (plain Insert never removes), occasional empty and delete-only batches.
func (w *World) GenBatch() BatchSpec {
	w.mu.Lock()
	key := w.nextKey
	w.nextKey++
	w.mu.Unlock()
	b := BatchSpec{Key: key}
	n := 0
	switch r := w.rng.Intn(20); {
	case r == 0:
		n = 0
	case r < 12:
		n = 1
	case r < 17:
		n = 2 + w.rng.Intn(2)
	default:
		n = 4 + w.rng.Intn(4)
	}
	deleteOnly := w.rng.Intn(8) == 0
	used := map[int]bool{}
	for i := 0; i < n; i++ {
		id := w.rng.Intn(w.O.Universe)
		if used[id] { // one operation per id and batch (two are the known-finding probe's business)
			continue
		}
		used[id] = true
		w.mu.Lock()
		v := w.nextV
		w.nextV++
		w.mu.Unlock()
		r := w.rng.Intn(10)
		switch {
		case deleteOnly || r < 3:
			b.Ops = append(b.Ops, DocOp{Kind: "del", ID: id})
		case r < 8:
			b.Ops = append(b.Ops, DocOp{Kind: "upd", ID: id, V: v})
		default:
			b.Ops = append(b.Ops, DocOp{Kind: "ins", ID: id + 100, V: v}) // insert-only ids live in their own range
		}
	}
	if len(b.Ops) > 0 && w.rng.Intn(3) == 0 {
		b.Ops = append(b.Ops, DocOp{Kind: "del", ID: 1000000 + key}) // an id that was never inserted
	}
	return b
}

// Do issues the batch on the writer, recording call and return.
func (w *World) Do(b BatchSpec, callback bool) error {
	docs, ids := b.content()
	p := pendingBatch{key: b.Key}
	for _, d := range docs {
		p.docs = append(p.docs, idString(d.ID)+"\x00"+strconv.Itoa(d.V))
	}
	for _, i := range ids {
		p.ids = append(p.ids, idString(i))
	}
	w.mu.Lock()
	w.Specs[b.Key] = b
	w.pending = append(w.pending, p)
	w.mu.Unlock()
	bb := b.build()
	if callback {
		key := b.Key
		bb.SetPersistedCallback(func(err error) {
			e := ""
			if err != nil {
				e = err.Error()
			}
			w.Rec.Add(&sim.Event{Kind: "callback", Batch: key, Err: e})
		})
	}
	w.Rec.Add(&sim.Event{Kind: "batch-call", Batch: b.Key})
	atomic.AddInt32(&w.inflight, 1)
	err := w.W.Batch(bb)
	atomic.AddInt32(&w.inflight, -1)
	e := ""
	if err != nil {
		e = err.Error()
	}
	w.Rec.Add(&sim.Event{Kind: "batch-ret", Batch: b.Key, Err: e})
	return err
}

// ---- observations ----

type Observation struct {
	Epoch    uint64
	Count    uint64
	MatchAll []struct {
		Num uint64
		D   DV
	}
	Lookups map[int][]DV
	Segs    []index.VerifSeg
	Err     string
}

func observeReader(r *bluge.Reader, universe []int) Observation {
	var o Observation
	o.Lookups = map[int][]DV{}
	ep, segs := index.VerifSnapshotInfo(r.VerifSnapshot())
	o.Epoch, o.Segs = ep, segs
	c, err := r.Count()
	if err != nil {
		o.Err = "count: " + err.Error()
		return o
	}
	o.Count = c
	run := func(q bluge.Query, f func(num uint64, d DV)) error {
		it, err := r.Search(context.Background(), bluge.NewAllMatches(q))
		if err != nil {
			return err
		}
		m, err := it.Next()
		for err == nil && m != nil {
			var id, v string
			if e := m.VisitStoredFields(func(field string, value []byte) bool {
				switch field {
				case "_id":
					id = string(value)
				case "v":
					v = string(value)
				}
				return true
			}); e != nil {
				return e
			}
			vi, _ := strconv.Atoi(v)
			f(m.Number, DV{parseID(id), vi})
			m, err = it.Next()
		}
		return err
	}
	if err := run(bluge.NewMatchAllQuery(), func(num uint64, d DV) {
		o.MatchAll = append(o.MatchAll, struct {
			Num uint64
			D   DV
		}{num, d})
	}); err != nil {
		o.Err = "match-all: " + err.Error()
		return o
	}
	for _, id := range universe {
		var got []DV
		if err := run(bluge.NewTermQuery(idString(id)).SetField("_id"), func(num uint64, d DV) { got = append(got, d) }); err != nil {
			o.Err = "lookup: " + err.Error()
			return o
		}
		o.Lookups[id] = got
	}
	return o
}

func (o Observation) docs() []DV {
	out := make([]DV, len(o.MatchAll))
	for i, m := range o.MatchAll {
		out[i] = m.D
	}
	return out
}

func (o Observation) equal(p Observation) bool {
	if o.Epoch != p.Epoch || o.Count != p.Count || o.Err != p.Err || len(o.MatchAll) != len(p.MatchAll) {
		return false
	}
	for i := range o.MatchAll {
		if o.MatchAll[i] != p.MatchAll[i] {
			return false
		}
	}
	for k, v := range o.Lookups {
		if !sameDV(v, p.Lookups[k]) {
			return false
		}
	}
	return true
}

func (w *World) universeIDs() []int {
	var u []int
	for i := 0; i < w.O.Universe; i++ {
		u = append(u, i, i+100)
	}
	return u
}

// Observe obtains a reader from the writer, queries it, records the observation.
func (w *World) Observe() (Observation, error) {
	r, err := w.W.Reader()
	if err != nil {
		return Observation{}, err
	}
	defer r.Close()
	o := observeReader(r, w.universeIDs())
	w.mu.Lock()
	w.Observed = append(w.Observed, o)
	w.mu.Unlock()
	return o, nil
}

func (w *World) Close() error {
	w.Rec.Add(&sim.Event{Kind: "writer-close-start"})
	err := w.W.Close()
	w.Rec.Add(&sim.Event{Kind: "writer-closed"})
	detachTrace()
	return err
}

// ---- conversion of the log to Coq trace events ----

func coqDocs(ds []DV) string {
	it := make([]string, len(ds))
	for i, d := range ds {
		it[i] = cq.Pair(cq.I(d.ID), cq.I(d.V))
	}
	return cq.List(it)
}

func coqU32s(a []uint32) string {
	it := make([]string, len(a))
	for i, x := range a {
		it[i] = strconv.FormatUint(uint64(x), 10)
	}
	return cq.List(it)
}

func segDocs(vs index.VerifSeg) []DV {
	out := make([]DV, len(vs.Docs))
	for i, s := range vs.Docs {
		out[i] = parseDoc(s)
	}
	return out
}

func coqSeg(vs index.VerifSeg) string {
	return fmt.Sprintf("SG %d %s %s %s", vs.ID, coqDocs(segDocs(vs)), coqU32s(vs.Deleted), cq.B(vs.Persisted))
}

func coqSnap(epoch uint64, segs []index.VerifSeg) string {
	it := make([]string, len(segs))
	for i, s := range segs {
		it[i] = coqSeg(s)
	}
	return fmt.Sprintf("(SN %d %s)", epoch, cq.List(it))
}

func coqBatch(b BatchSpec) string {
	docs, ids := b.content()
	return fmt.Sprintf("(BT %s %s)", coqDocs(docs), cq.IntList(ids))
}

func coqObservation(o Observation, universe []int) string {
	ma := make([]string, len(o.MatchAll))
	for i, m := range o.MatchAll {
		ma[i] = cq.Pair(strconv.FormatUint(m.Num, 10), cq.Pair(cq.I(m.D.ID), cq.I(m.D.V)))
	}
	var lk []string
	for _, id := range universe {
		lk = append(lk, cq.Pair(cq.I(id), coqDocs(o.Lookups[id])))
	}
	return fmt.Sprintf("(OB %d %d %s %s)", o.Epoch, o.Count, cq.List(ma), cq.List(lk))
}

type TraceStats struct {
	Intros, Swaps, Merges, MergesSkipped, Loads, Observes, StaleObs, MemMerges int
	MergeWithDeleteSince                                                       int
}

// TraceEvents converts the recorded log into the Coq event list of Index/Trace.v.  Observations are
// placed after the root event whose epoch they captured.
func (w *World) TraceEvents() (string, TraceStats, []int) {
	var st TraceStats
	evs := w.Rec.Snapshot()
	var out []string
	var introOrder []int
	obsByEpoch := map[uint64][]Observation{}
	w.mu.Lock()
	for _, o := range w.Observed {
		if o.Err == "" {
			obsByEpoch[o.Epoch] = append(obsByEpoch[o.Epoch], o)
		}
	}
	w.mu.Unlock()
	universe := w.universeIDs()
	flushObs := func(epoch uint64) {
		for _, o := range obsByEpoch[epoch] {
			out = append(out, "EObserve "+coqObservation(o, universe))
			st.Observes++
		}
		delete(obsByEpoch, epoch)
	}
	var prevRoot *index.VerifEvent
	var pendingIntro *sim.Event
	var pendingMerge *index.VerifEvent
	lastLoad := -1
	for i, e := range evs {
		if e.Kind == "root" && e.V.Creator == "loadSnapshot" {
			lastLoad = i
		}
	}
	flushObs(0)
	for i, e := range evs {
		switch e.Kind {
		case "batch-call":
			out = append(out, fmt.Sprintf("ECall %d", e.Batch))
		case "batch-ret":
			out = append(out, fmt.Sprintf("ERet %d %s", e.Batch, cq.B(e.Err == "")))
		case "intro-segment":
			pendingIntro = e
		case "intro-merge":
			pendingMerge = e.V
		case "root":
			v := e.V
			switch v.Creator {
			case "loadSnapshot":
				if i == lastLoad {
					out = append(out, "ELoad "+coqSnap(v.Epoch, v.Segs))
					st.Loads++
					prevRoot = v
					flushObs(v.Epoch)
				}
			case "introduceSegment":
				if pendingIntro == nil {
					out = append(out, "ELoad "+coqSnap(v.Epoch, v.Segs)) // malformed: rejected by the monitor
					break
				}
				iv := pendingIntro.V
				spec, ok := w.Specs[pendingIntro.Batch]
				if !ok {
					// unknown batch (content did not match any call): encode what the writer saw
					spec = BatchSpec{Key: -1}
					for _, d := range iv.NewDocs {
						dv := parseDoc(d)
						spec.Ops = append(spec.Ops, DocOp{Kind: "ins", ID: dv.ID, V: dv.V})
					}
					for _, t := range iv.IDTerms {
						spec.Ops = append(spec.Ops, DocOp{Kind: "del", ID: parseID(t)})
					}
				}
				var obs []string
				ids := make([]uint64, 0, len(iv.Obsoletes))
				for id := range iv.Obsoletes {
					ids = append(ids, id)
				}
				sort.Slice(ids, func(a, b int) bool { return ids[a] < ids[b] })
				for _, id := range ids {
					obs = append(obs, cq.Pair(strconv.FormatUint(id, 10), coqU32s(iv.Obsoletes[id])))
				}
				if prevRoot != nil && len(iv.Obsoletes) != len(prevRoot.Segs) {
					st.StaleObs++
				}
				out = append(out, fmt.Sprintf("EIntro %d %s %s %d %s", pendingIntro.Batch, coqBatch(spec), cq.List(obs), iv.IntroID, coqSnap(v.Epoch, v.Segs)))
				introOrder = append(introOrder, pendingIntro.Batch)
				st.Intros++
				pendingIntro = nil
				prevRoot = v
				flushObs(v.Epoch)
			case "introducePersist":
				var ids []string
				if prevRoot != nil {
					was := map[uint64]bool{}
					for _, s := range prevRoot.Segs {
						was[s.ID] = s.Persisted
					}
					for _, s := range v.Segs {
						if s.Persisted && !was[s.ID] {
							ids = append(ids, strconv.FormatUint(s.ID, 10))
						}
					}
				}
				out = append(out, fmt.Sprintf("EPersistSwap %s %s", cq.List(ids), coqSnap(v.Epoch, v.Segs)))
				st.Swaps++
				prevRoot = v
				flushObs(v.Epoch)
			case "introduceMerge":
				m := pendingMerge
				if m == nil {
					out = append(out, "ELoad "+coqSnap(v.Epoch, v.Segs))
					break
				}
				// order the merged segments by the first new document number they received
				old := append([]index.VerifSeg{}, m.Old...)
				first := func(s index.VerifSeg) uint64 {
					for _, n := range m.OldNew[s.ID] {
						if n != 9223372036854775807 {
							return n
						}
					}
					return 1 << 62
				}
				sort.SliceStable(old, func(a, b int) bool {
					fa, fb := first(old[a]), first(old[b])
					if fa != fb {
						return fa < fb
					}
					return old[a].ID < old[b].ID
				})
				var oldS, tblS, docsS []string
				persistedOld := true
				for _, s := range old {
					if s.Nil {
						oldS = append(oldS, cq.Pair(strconv.FormatUint(s.ID, 10), "None"))
						continue
					}
					if !s.Persisted {
						persistedOld = false
					}
					oldS = append(oldS, cq.Pair(strconv.FormatUint(s.ID, 10), cq.Some(coqU32s(s.Deleted))))
					docsS = append(docsS, cq.Pair(strconv.FormatUint(s.ID, 10), coqDocs(segDocs(s))))
					if tbl, ok := m.OldNew[s.ID]; ok {
						tblS = append(tblS, cq.Pair(strconv.FormatUint(s.ID, 10), cq.U64List(tbl)))
					}
				}
				if !persistedOld {
					st.MemMerges++
				}
				nw := "None"
				np := false
				if m.New != nil {
					nw = cq.Some(coqDocs(segDocs(*m.New)))
					np = m.New.Persisted
				}
				skipped := true
				for _, s := range v.Segs {
					if s.ID == m.MergeID {
						skipped = false
						if len(s.Deleted) > 0 {
							st.MergeWithDeleteSince++
						}
					}
				}
				if skipped {
					st.MergesSkipped++
				}
				out = append(out, fmt.Sprintf("EMerge (MG %d %s %s %s %s) %s %s %s", m.MergeID, cq.List(oldS), cq.List(tblS), nw, cq.B(np),
					cq.List(docsS), coqSnap(v.Epoch, v.Segs), cq.B(skipped)))
				st.Merges++
				pendingMerge = nil
				prevRoot = v
				flushObs(v.Epoch)
			}
		}
	}
	return cq.List(out), st, introOrder
}

// HandleEvents converts the log into the events of Index/Handles.v (simulated directory only).
// Readers are placed right after the root they captured.
func (w *World) HandleEvents(complete bool) string {
	evs := w.Rec.Snapshot()
	var out []string
	readersAt := map[uint64][]int{}
	for _, e := range evs {
		if e.Kind == "reader-open" {
			readersAt[e.ID] = append(readersAt[e.ID], e.Batch)
		}
	}
	flush := func(epoch uint64) {
		for _, r := range readersAt[epoch] {
			out = append(out, fmt.Sprintf("HReaderOpen %d %d", r, epoch))
		}
		delete(readersAt, epoch)
	}
	flush(0)
	for _, e := range evs {
		switch e.Kind {
		case "root":
			if e.V.Creator == "nil" {
				out = append(out, "HRootNil")
				continue
			}
			var ids []string
			for _, sg := range e.V.Segs {
				if sg.Persisted {
					ids = append(ids, strconv.FormatUint(sg.ID, 10))
				}
			}
			out = append(out, fmt.Sprintf("HRoot %d %s", e.V.Epoch, cq.List(ids)))
			flush(e.V.Epoch)
		case "load-ok":
			out = append(out, fmt.Sprintf("HOpen %s %d %s", cq.B(e.Item == ".snp"), e.ID, e.Note))
		case "close-handle":
			out = append(out, fmt.Sprintf("HClose %d", e.ID))
		case "double-close":
			out = append(out, fmt.Sprintf("HClose %d", e.ID))
		case "reader-close":
			out = append(out, fmt.Sprintf("HReaderClose %d", e.Batch))
		}
	}
	if complete {
		out = append(out, "HEnd")
	}
	return cq.List(out)
}

// ---- directory control independent of the kind (sim / fsrec) ----

func (w *World) SetFaultAt(f func(op sim.Op) *sim.Fault) {
	if w.Dir != nil {
		w.Dir.FaultAt = f
	}
	if w.RDir != nil {
		w.RDir.FaultAt = f
	}
}

func (w *World) DirLocked() bool {
	if w.RDir != nil {
		return w.RDir.Locked()
	}
	return w.Dir.Locked()
}

func (w *World) DirOpenHandles() []string {
	if w.RDir != nil {
		return w.RDir.OpenHandles()
	}
	return w.Dir.OpenHandles()
}

func (w *World) DirImage() map[string][]byte {
	if w.RDir != nil {
		return w.RDir.Image()
	}
	return w.Dir.Image()
}

// Idle: no Batch call is in progress.
func (w *World) Idle() bool { return atomic.LoadInt32(&w.inflight) == 0 }

// ReleaseMerge lets one parked merge introduction proceed.
func (w *World) ReleaseMerge() {
	if w.mergeGate != nil {
		select {
		case w.mergeGate <- struct{}{}:
		default:
		}
	}
}
