package engines

// analysis_retained.go — part of engine `analysis` (C18): "retained result after reuse".
//
// A result handed out by a COMPLETED call must not be changed by a LATER call of the same
// instance on other input (two fields of one document, two documents of a batch, a token stream
// kept by the caller all go through one analyzer instance).  For every analyzer, tokenizer, token
// filter and char filter instance: out1 := X(A) is kept live, snap1 := deep copy of out1,
// out2 := X(B) with the same instance, then out1 must still deep-equal snap1
// (`analysis-retained-result:<component>`) and X(A) again must equal snap1.  Every call gets a
// fresh copy of its text / a fresh input stream, so only instance-internal state can leak (a
// filter consuming its own input stream in place is not what is tested).  A and B both hold runes
// whose lower-case form has another UTF-8 length (Ⱥ Ⱦ İ longer, K shorter).

import (
	"bytes"
	"context"
	"fmt"
	"regexp"
	"sort"
	"strings"

	"github.com/blugelabs/bluge"
	"github.com/blugelabs/bluge/analysis"
	"github.com/blugelabs/bluge/analysis/lang/fr"
	"github.com/blugelabs/bluge/analysis/token"
	"github.com/blugelabs/bluge/analysis/tokenizer"
)

var analysisRetainedFlood = strings.Repeat("ȾȺ İȾ KȺ ", 16)

var analysisWideWords = []string{"ȺȾ", "aȺb", "ȺȺȺ", "ȾȺ1", "İstanbul", "İİ", "Kelvin", "KK", "xȺyȾz", "ȺK", "İȺ", "ẞȺ"}

// analysisPairText: generated text of the family `lang` with a few length-changing words mixed in
func (e *analysisEngine) analysisPairText(lang string) []byte {
	var sb bytes.Buffer
	sb.Write(analysisWords(e.rng, lang, 1+e.rng.Intn(3)))
	for i, n := 0, 1+e.rng.Intn(3); i < n; i++ {
		sb.WriteByte(' ')
		sb.WriteString(analysisWideWords[e.rng.Intn(len(analysisWideWords))])
	}
	if e.rng.Intn(3) == 0 {
		sb.WriteByte(' ')
		sb.Write(analysisWords(e.rng, lang, 1))
	}
	if e.rng.Intn(6) == 0 {
		sb.WriteString(" \xff")
	}
	return sb.Bytes()
}

func (e *analysisEngine) retainedFail(component string, what string, a, b []byte, before, after []analysisTokSnap) {
	e.w.OracleFail("analysis-retained-result:"+component, what,
		map[string]interface{}{"component": component, "A": analysisQ(a), "B": analysisQ(b), "result_of_A": analysisShowTokens(before), "after_call_on_B": analysisShowTokens(after)})
}

// retainedStream checks one token-stream producing instance: run(text) must return the stream of
// a fresh call on a fresh copy of the text.
func (e *analysisEngine) retainedStream(component, lang string, rounds int, run func(text []byte) analysis.TokenStream) {
	for r := 0; r < rounds; r++ {
		a, b := e.analysisPairText(lang), e.analysisPairText(lang)
		var out1, out2 analysis.TokenStream
		var snap1, again []analysisTokSnap
		ok := e.guarded(component, "retained", analysisQ(a), false, func() {
			out1 = run(append([]byte{}, a...))
			snap1 = analysisSnapTokens(out1)
			// first a text made of widening words only: whatever buffer the instance kept from the call
			// on A is overwritten from its start up to its capacity
			run([]byte(analysisRetainedFlood))
			out2 = run(append([]byte{}, b...))
			again = analysisSnapTokens(run(append([]byte{}, a...)))
		})
		if !ok {
			return
		}
		_ = out2
		e.w.OracleEval(2)
		if now := analysisSnapTokens(out1); !analysisSnapsEqual(now, snap1) {
			e.retainedFail(component, "a token stream returned by a completed call was changed by a later call of the same instance on other text", a, b, snap1, now)
			return
		}
		if !analysisSnapsEqual(again, snap1) {
			e.w.OracleFail(analysisKeyFor("determinism", component, false), "the same instance gives another result for the same text after a call on other text",
				map[string]interface{}{"component": component, "A": analysisQ(a), "B": analysisQ(b), "first": analysisShowTokens(snap1), "again": analysisShowTokens(again)})
			return
		}
	}
}

func (e *analysisEngine) retained(rounds int) {
	// ---- analyzers: bundled ones and a few configured pipelines
	type anEnt struct {
		name, lang string
		mk         func() *analysis.Analyzer
	}
	var ans []anEnt
	for _, a := range analysisBundledAnalyzers() {
		ans = append(ans, anEnt{a.name, a.name, a.mk})
	}
	ans = append(ans,
		anEnt{"ws+lower+ngram", "", func() *analysis.Analyzer {
			return &analysis.Analyzer{Tokenizer: tokenizer.NewWhitespaceTokenizer(), TokenFilters: []analysis.TokenFilter{token.NewLowerCaseFilter(), token.NewNgramFilter(2, 3)}}
		}},
		anEnt{"letter+lower+shingle", "", func() *analysis.Analyzer {
			return &analysis.Analyzer{Tokenizer: tokenizer.NewLetterTokenizer(), TokenFilters: []analysis.TokenFilter{token.NewLowerCaseFilter(), token.NewShingleFilter(2, 2, true, " ", "_")}}
		}},
		anEnt{"single+lower+truncate", "", func() *analysis.Analyzer {
			return &analysis.Analyzer{Tokenizer: tokenizer.NewSingleTokenTokenizer(), TokenFilters: []analysis.TokenFilter{token.NewLowerCaseFilter(), token.NewTruncateTokenFilter(6)}}
		}},
	)
	for _, ae := range ans {
		a := ae.mk()
		e.retainedStream("analyzer:"+ae.name, ae.lang, rounds, func(text []byte) analysis.TokenStream { return a.Analyze(text) })
	}
	// ---- tokenizers
	for _, te := range analysisBundledTokenizers() {
		tk := te.mk()
		e.retainedStream("tokenizer:"+te.name, "", rounds, func(text []byte) analysis.TokenStream { return tk.Tokenize(text) })
	}
	// ---- token filters: every bundled one, the exact ones, stop and elision filters; the input
	// stream of each call is freshly tokenized from a fresh copy of the text
	type tfEnt struct {
		name, lang string
		mk         func() analysis.TokenFilter
	}
	var tfs []tfEnt
	for _, f := range analysisBundledTokenFilters() {
		tfs = append(tfs, tfEnt{f.name, f.lang, f.mk})
	}
	for _, st := range analysisBundledStopFilters() {
		st := st
		tfs = append(tfs, tfEnt{"stop:" + st.lang, st.lang, func() analysis.TokenFilter { return st.mk() }})
	}
	tfs = append(tfs,
		tfEnt{"lowercase", "", func() analysis.TokenFilter { return token.NewLowerCaseFilter() }},
		tfEnt{"length(2,8)", "", func() analysis.TokenFilter { return token.NewLengthFilter(2, 8) }},
		tfEnt{"truncate(3)", "", func() analysis.TokenFilter { return token.NewTruncateTokenFilter(3) }},
		tfEnt{"unique", "", func() analysis.TokenFilter { return token.NewUniqueTermFilter() }},
		tfEnt{"ngram(1,2)", "", func() analysis.TokenFilter { return token.NewNgramFilter(1, 2) }},
		tfEnt{"edge(front,1,3)", "", func() analysis.TokenFilter { return token.NewEdgeNgramFilter(token.FRONT, 1, 3) }},
		tfEnt{"edge(back,2,3)", "", func() analysis.TokenFilter { return token.NewEdgeNgramFilter(token.BACK, 2, 3) }},
		tfEnt{"reverse", "", func() analysis.TokenFilter { return token.NewReverseFilter() }},
		tfEnt{"apostrophe", "tr", func() analysis.TokenFilter { return token.NewApostropheFilter() }},
		tfEnt{"shingle(2,3)", "", func() analysis.TokenFilter { return token.NewShingleFilter(2, 3, true, " ", "_") }},
		tfEnt{"fr.elision", "elision", func() analysis.TokenFilter { return fr.ElisionFilter() }},
		tfEnt{"keyword", "", func() analysis.TokenFilter { return token.NewKeyWordMarkerFilter(analysisTokenMapOf("the", "ȺȾ")) }},
	)
	tks := []func() analysis.Tokenizer{
		func() analysis.Tokenizer { return tokenizer.NewWhitespaceTokenizer() },
		func() analysis.Tokenizer { return tokenizer.NewUnicodeTokenizer() },
		func() analysis.Tokenizer { return tokenizer.NewRegexpTokenizer(regexp.MustCompile(`\S+`)) },
	}
	for i, fe := range tfs {
		f := fe.mk()
		mkTk := tks[i%len(tks)]
		e.retainedStream("filter:"+fe.name, fe.lang, rounds, func(text []byte) analysis.TokenStream { return f.Filter(mkTk().Tokenize(text)) })
	}
	// ---- the stemmers / normalisers of the sweep, one instance per language target
	for _, lang := range analysisSweepLangs {
		filters, _ := analysisSweepTargets(lang)
		for _, t := range filters {
			f := t.filter()
			e.retainedStream("filter:"+t.name+"(unicode)", lang, 1, func(text []byte) analysis.TokenStream {
				return f.Filter(token.NewLowerCaseFilter().Filter(tokenizer.NewUnicodeTokenizer().Tokenize(text)))
			})
		}
	}
	// ---- char filters: the returned bytes must not change after the next call
	for _, ce := range analysisBundledCharFilters() {
		cf := ce.mk()
		for r := 0; r < rounds; r++ {
			a, b := e.analysisPairText(""), e.analysisPairText("")
			var o1, c1, again []byte
			if !e.guarded("charfilter:"+ce.name, "retained", analysisQ(a), false, func() {
				o1 = cf.Filter(append([]byte{}, a...))
				c1 = append([]byte{}, o1...)
				cf.Filter([]byte(analysisRetainedFlood))
				cf.Filter(append([]byte{}, b...))
				again = cf.Filter(append([]byte{}, a...))
			}) {
				break
			}
			e.w.OracleEval(2)
			if !bytes.Equal(o1, c1) {
				e.w.OracleFail("analysis-retained-result:charfilter:"+ce.name, "the bytes returned by a completed call were changed by a later call",
					map[string]interface{}{"A": analysisQ(a), "B": analysisQ(b), "result_of_A": analysisQ(c1), "after_call_on_B": analysisQ(o1)})
				break
			}
			if !bytes.Equal(again, c1) {
				e.w.OracleFail(analysisKeyFor("determinism", "charfilter:"+ce.name, false), "same instance, same text, another result", analysisQ(a))
				break
			}
		}
	}
	// ---- end to end: one analyzer instance shared by two fields / two documents of one batch
	for _, ae := range ans {
		for r := 0; r < (rounds+1)/2; r++ {
			e.retainedDocument(ae.name, ae.lang, ae.mk)
		}
	}
}

func analysisTermStrings(ts []analysisTokSnap) []string {
	m := map[string]bool{}
	for _, t := range ts {
		m[string(t.Term)] = true
	}
	out := make([]string, 0, len(m))
	for k := range m {
		out = append(out, k)
	}
	sort.Strings(out)
	return out
}

// retainedDocument: a document with two text fields sharing ONE analyzer instance, and a second
// document in the same batch: after analysis every field's terms are those of analysing its text
// alone with a fresh analyzer, and a MatchQuery (AND) with a field's own text finds the document.
func (e *analysisEngine) retainedDocument(name, lang string, mk func() *analysis.Analyzer) {
	texts := [][]byte{e.analysisPairText(lang), e.analysisPairText(lang), e.analysisPairText(lang)}
	for i := range texts {
		if len(texts[i]) > 200 {
			texts[i] = texts[i][:200]
		}
	}
	comp := "shared-analyzer:" + name
	want := make([][]string, len(texts))
	ntok := make([]int, len(texts))
	for i, t := range texts {
		t := t
		var s []analysisTokSnap
		if !e.guarded(comp, "retained", analysisQ(t), false, func() { s = analysisSnapTokens(mk().Analyze(append([]byte{}, t...))) }) {
			return
		}
		want[i] = analysisTermStrings(s)
		ntok[i] = len(s)
	}
	shared := mk()
	f1 := bluge.NewTextFieldBytes("f1", append([]byte{}, texts[0]...)).WithAnalyzer(shared).StoreValue()
	f2 := bluge.NewTextFieldBytes("f2", append([]byte{}, texts[1]...)).WithAnalyzer(shared)
	f3 := bluge.NewTextFieldBytes("f1", append([]byte{}, texts[2]...)).WithAnalyzer(shared)
	d1 := bluge.NewDocument("d1").AddField(f1).AddField(f2)
	d2 := bluge.NewDocument("d2").AddField(f3)
	hits := make([]int, 3)
	var err error
	if !e.guarded(comp, "retained", analysisQ(texts[0]), false, func() {
		var wr *bluge.Writer
		wr, err = bluge.OpenWriter(bluge.InMemoryOnlyConfig())
		if err != nil {
			return
		}
		defer wr.Close()
		b := bluge.NewBatch()
		b.Insert(d1)
		b.Insert(d2)
		if err = wr.Batch(b); err != nil {
			return
		}
		var rd *bluge.Reader
		rd, err = wr.Reader()
		if err != nil {
			return
		}
		defer rd.Close()
		for i, fld := range []string{"f1", "f2", "f1"} {
			mq := bluge.NewMatchQuery(string(texts[i])).SetField(fld).SetAnalyzer(mk()).SetOperator(bluge.MatchQueryOperatorAnd)
			it, err2 := rd.Search(context.Background(), bluge.NewAllMatches(mq))
			if err2 != nil {
				err = err2
				return
			}
			wantID := []string{"d1", "d1", "d2"}[i]
			m, err2 := it.Next()
			for err2 == nil && m != nil {
				_ = m.VisitStoredFields(func(field string, value []byte) bool {
					if field == "_id" && string(value) == wantID {
						hits[i]++
					}
					return true
				})
				m, err2 = it.Next()
			}
		}
	}) {
		return
	}
	if err != nil {
		e.w.OracleFail(analysisKeyFor("match-error", comp, false), err.Error(), analysisQ(texts[0]))
		return
	}
	// the fields were analysed while the batch was built: their term sets now
	for i, f := range []*bluge.TermField{f1, f2, f3} {
		e.w.OracleEval(1)
		var got []string
		for _, tf := range f.AnalyzedTokenFrequencies() {
			got = append(got, string(tf.Term())) // TermVal: the bytes the segment is built from
		}
		sort.Strings(got)
		if strings.Join(got, "\x00") != strings.Join(want[i], "\x00") {
			e.w.OracleFail("analysis-retained-result:"+comp, fmt.Sprintf("field %d of documents sharing one analyzer instance: its indexed terms are not those of analysing its text alone", i+1),
				map[string]interface{}{"texts": []string{analysisQ(texts[0]), analysisQ(texts[1]), analysisQ(texts[2])}, "terms": fmt.Sprintf("%q", got), "alone": fmt.Sprintf("%q", want[i])})
			return
		}
	}
	for i := range texts {
		if ntok[i] == 0 {
			continue
		}
		e.w.OracleEval(1)
		if hits[i] != 1 {
			e.w.OracleFail(analysisKeyFor("match-own-text", comp, false), fmt.Sprintf("a match query (AND) with the text of field %d found its document %d times (fields share one analyzer instance)", i+1, hits[i]),
				map[string]interface{}{"texts": []string{analysisQ(texts[0]), analysisQ(texts[1]), analysisQ(texts[2])}})
			return
		}
	}
}
