package engines

// Engine topn (C09): (a) drives collector.NewTopNCollector / NewTopNCollectorAfter directly with
// generated match lists through a stub searcher and a stub doc-value reader; (b) runs
// bluge.TopNSearch (SetFrom / After / Before) against bluge.AllMatches on small in-memory
// indexes.  Every observed result list becomes part of a correspondence case for
// Search/TopNCorr.v; the property itself (result = the [from, from+n) slice of the complete
// ranking; paging chains cover every match once, in order) is evaluated directly in Go by
// stableSort + slicing, independent of the model.

import (
	"bytes"
	"context"
	"fmt"
	"math"
	"math/rand"
	"sort"
	"strings"
	"time"

	"github.com/blugelabs/bluge"
	"github.com/blugelabs/bluge/numeric"
	"github.com/blugelabs/bluge/search"
	"github.com/blugelabs/bluge/search/collector"
	segment "github.com/blugelabs/bluge_segment_api"

	"verif/harness/cq"
)

func init() { Registry["topn"] = runTopN }

// ---------------------------------------------------------------- stubs shared with the aggs engine

// stubDoc is one match as a searcher would produce it, with the document's doc values.
type stubDoc struct {
	number uint64
	score  float64
	dv     map[int][][]byte // field id -> terms in the order a segment visits them (sorted, distinct)
	tab    [][]byte         // values of table sources (nil = missing)
	// generator-side knowledge used only by the oracles
	kw    map[int][]string
	nums  map[int][]float64
	dates map[int][]int64
}

func fieldName(id int) string { return fmt.Sprintf("f%d", id) }
func fieldID(name string) int {
	var id int
	fmt.Sscanf(name, "f%d", &id)
	return id
}

type stubReader struct{ docs map[uint64]*stubDoc }

type stubDVR struct {
	r      *stubReader
	fields []string
}

// as ice does: every field named in the reader's list is visited, in list order (a field named
// twice is visited twice)
func (d *stubDVR) VisitDocumentValues(number uint64, visitor segment.DocumentValueVisitor) error {
	doc := d.r.docs[number]
	if doc == nil {
		return fmt.Errorf("no such doc %d", number)
	}
	for _, f := range d.fields {
		for _, t := range doc.dv[fieldID(f)] {
			visitor(f, t)
		}
	}
	return nil
}

func (r *stubReader) DocumentValueReader(fields []string) (segment.DocumentValueReader, error) {
	return &stubDVR{r: r, fields: append([]string{}, fields...)}, nil
}

func (r *stubReader) VisitStoredFields(number uint64, visitor segment.StoredFieldVisitor) error {
	return nil
}

type stubSearcher struct {
	docs   []*stubDoc
	i      int
	reader *stubReader
}

func newStubSearcher(docs []*stubDoc) *stubSearcher {
	r := &stubReader{docs: map[uint64]*stubDoc{}}
	for _, d := range docs {
		r.docs[d.number] = d
	}
	return &stubSearcher{docs: docs, reader: r}
}

func (s *stubSearcher) Next(ctx *search.Context) (*search.DocumentMatch, error) {
	if s.i >= len(s.docs) {
		return nil, nil
	}
	d := s.docs[s.i]
	s.i++
	m := ctx.DocumentMatchPool.Get()
	m.Number = d.number
	m.Score = d.score
	m.SetReader(s.reader)
	return m, nil
}
func (s *stubSearcher) DocumentMatchPoolSize() int { return 0 }
func (s *stubSearcher) Close() error               { return nil }

// tableSource: a caller-defined TextValueSource without fields
type tableSource struct {
	col  int
	docs map[uint64]*stubDoc
}

func (t *tableSource) Fields() []string { return nil }
func (t *tableSource) Value(m *search.DocumentMatch) []byte {
	d := t.docs[m.Number]
	if d == nil || t.col >= len(d.tab) {
		return nil
	}
	return d.tab[t.col]
}

// numeric doc values as a segment returns them: sorted distinct terms; the stub keeps the
// shift-0 and the shift-4 token of every value (ice keeps all sixteen)
func numericTerms(vals []float64) [][]byte {
	var out [][]byte
	seen := map[string]bool{}
	for _, v := range vals {
		i := numeric.Float64ToInt64(v)
		for _, sh := range []uint{0, 4} {
			t := []byte(numeric.MustNewPrefixCodedInt64(i, sh))
			if !seen[string(t)] {
				seen[string(t)] = true
				out = append(out, t)
			}
		}
	}
	sort.Slice(out, func(a, b int) bool { return bytes.Compare(out[a], out[b]) < 0 })
	return out
}

func dateTerms(ns []int64) [][]byte {
	var out [][]byte
	seen := map[string]bool{}
	for _, v := range ns {
		for _, sh := range []uint{0, 4} {
			t := []byte(numeric.MustNewPrefixCodedInt64(v, sh))
			if !seen[string(t)] {
				seen[string(t)] = true
				out = append(out, t)
			}
		}
	}
	sort.Slice(out, func(a, b int) bool { return bytes.Compare(out[a], out[b]) < 0 })
	return out
}

func keywordTerms(vals []string) [][]byte {
	var out [][]byte
	seen := map[string]bool{}
	for _, v := range vals {
		if !seen[v] {
			seen[v] = true
			out = append(out, []byte(v))
		}
	}
	sort.Slice(out, func(a, b int) bool { return bytes.Compare(out[a], out[b]) < 0 })
	return out
}

// ---------------------------------------------------------------- Coq printing

func coqOptBytes(b []byte) string {
	if b == nil {
		return "None"
	}
	return cq.Some(cq.Bytes(b))
}

func coqRawHit(number uint64, score float64, dv map[int][][]byte, tab [][]byte) string {
	ids := make([]int, 0, len(dv))
	for id := range dv {
		ids = append(ids, id)
	}
	sort.Ints(ids)
	var dvs []string
	for _, id := range ids {
		if len(dv[id]) == 0 {
			continue
		}
		dvs = append(dvs, cq.Pair(cq.I(id), cq.BytesList(dv[id])))
	}
	tabs := make([]string, len(tab))
	for i, t := range tab {
		tabs[i] = coqOptBytes(t)
	}
	return fmt.Sprintf("(Build_rawhit %s %s %s %s)", cq.U(number), cq.U(math.Float64bits(score)), cq.List(dvs), cq.List(tabs))
}

type sortComp struct {
	kind  int // 0 score, 1 field, 2 table
	field int
	col   int
	desc  bool
	first bool
}

func (c sortComp) coq() string {
	src := "TSScore"
	switch c.kind {
	case 1:
		src = fmt.Sprintf("(TSField %d)", c.field)
	case 2:
		src = fmt.Sprintf("(TSTab %s)", cq.Nat(c.col))
	}
	return fmt.Sprintf("(Build_sortspec %s %s %s)", src, cq.B(c.desc), cq.B(c.first))
}

func (c sortComp) String() string {
	s := "_score"
	switch c.kind {
	case 1:
		s = fieldName(c.field)
	case 2:
		s = fmt.Sprintf("tab%d", c.col)
	}
	if c.desc {
		s = "-" + s
	}
	if c.first {
		s += "^first"
	}
	return s
}

func coqOrder(o []sortComp) string {
	it := make([]string, len(o))
	for i, c := range o {
		it[i] = c.coq()
	}
	return cq.List(it)
}

func orderString(o []sortComp) string {
	it := make([]string, len(o))
	for i, c := range o {
		it[i] = c.String()
	}
	return strings.Join(it, ",")
}

func buildOrder(o []sortComp, docs map[uint64]*stubDoc, nameOf func(int) string) search.SortOrder {
	var so search.SortOrder
	for _, c := range o {
		var src search.TextValueSource
		switch c.kind {
		case 0:
			src = search.DocumentScore()
		case 1:
			src = search.Field(nameOf(c.field))
		default:
			src = &tableSource{col: c.col, docs: docs}
		}
		s := search.SortBy(src)
		if c.desc {
			s.Desc()
		}
		if c.first {
			s.MissingFirst()
		}
		so = append(so, s)
	}
	return so
}

type hitObs struct {
	number uint64
	sortv  [][]byte
}

func coqObs(res []hitObs, panicked bool) string {
	if panicked {
		return "None"
	}
	it := make([]string, len(res))
	for i, h := range res {
		it[i] = cq.Pair(cq.U(h.number), cq.BytesList(h.sortv))
	}
	return cq.Some(cq.List(it))
}

func coqKey(k [][]byte) string { return cq.BytesList(k) }

func drain(it search.DocumentMatchIterator) ([]hitObs, error) {
	var out []hitObs
	for {
		m, err := it.Next()
		if err != nil {
			return out, err
		}
		if m == nil {
			return out, nil
		}
		sv := make([][]byte, len(m.SortValue))
		for i, b := range m.SortValue {
			sv[i] = append([]byte{}, b...)
		}
		out = append(out, hitObs{number: m.Number, sortv: sv})
	}
}

// runDirect drives the collector; after == nil selects NewTopNCollector.
func runDirect(docs []*stubDoc, so search.SortOrder, size, skip int, after [][]byte, reverse bool,
	aggs search.Aggregations) (res []hitObs, bucket *search.Bucket, panicked bool, perr interface{}) {
	defer func() {
		if r := recover(); r != nil {
			res, bucket, panicked, perr = nil, nil, true, r
		}
	}()
	var c *collector.TopNCollector
	if after != nil {
		c = collector.NewTopNCollectorAfter(size, so, after, reverse)
	} else {
		c = collector.NewTopNCollector(size, skip, so)
	}
	if aggs == nil {
		aggs = search.Aggregations{}
	}
	it, err := c.Collect(context.Background(), aggs, newStubSearcher(docs))
	if err != nil {
		panic(err)
	}
	res, err = drain(it)
	if err != nil {
		panic(err)
	}
	return res, it.Aggregations(), false, nil
}

// ---------------------------------------------------------------- the reference ranking (oracle)

type refKey struct {
	present bool
	b       []byte
}

// refCompare: the documented order: per component present values bytewise (descending negates),
// a missing value first or last as requested, remaining ties by index order (stable sort).
func refCompare(o []sortComp, a, b []refKey) int {
	for x, c := range o {
		ka, kb := a[x], b[x]
		switch {
		case !ka.present && !kb.present:
			continue
		case !ka.present:
			if c.first {
				return -1
			}
			return 1
		case !kb.present:
			if c.first {
				return 1
			}
			return -1
		}
		r := bytes.Compare(ka.b, kb.b)
		if r == 0 {
			continue
		}
		if c.desc {
			r = -r
		}
		return r
	}
	return 0
}

var implLowTerm = []byte{0x00}
var implHighTerm = bytes.Repeat([]byte{0xff}, 10)

// a present key at or beyond the sentinels substituted for missing values
func keyCollides(k refKey) bool {
	return k.present && (bytes.Compare(k.b, implLowTerm) <= 0 || bytes.Compare(k.b, implHighTerm) >= 0)
}

type refRanking struct {
	order    []int // indexes into the hit list, best first
	distinct bool  // the order distinguishes all matches
	collide  bool  // some present key collides with a sentinel while some value of that component is missing
}

func rank(o []sortComp, keys [][]refKey) refRanking {
	n := len(keys)
	idx := make([]int, n)
	for i := range idx {
		idx[i] = i
	}
	sort.SliceStable(idx, func(a, b int) bool { return refCompare(o, keys[idx[a]], keys[idx[b]]) < 0 })
	rr := refRanking{order: idx, distinct: true}
	for i := 0; i+1 < n; i++ {
		if refCompare(o, keys[idx[i]], keys[idx[i+1]]) == 0 {
			rr.distinct = false
		}
	}
	for x := range o {
		missing, coll := false, false
		for _, k := range keys {
			if !k[x].present {
				missing = true
			}
			if keyCollides(k[x]) {
				coll = true
			}
		}
		if missing && coll {
			rr.collide = true
		}
	}
	return rr
}

func sliceOf(order []int, from, n int) []int {
	if from < 0 {
		from = 0
	}
	if from > len(order) {
		from = len(order)
	}
	end := from + n
	if n < 0 {
		end = from
	}
	if end > len(order) {
		end = len(order)
	}
	return order[from:end]
}

func sameNumbers(res []hitObs, want []int, numberOf func(int) uint64) bool {
	if len(res) != len(want) {
		return false
	}
	for i := range res {
		if res[i].number != numberOf(want[i]) {
			return false
		}
	}
	return true
}

func numbersOf(res []hitObs) []uint64 {
	out := make([]uint64, len(res))
	for i, h := range res {
		out[i] = h.number
	}
	return out
}

// ---------------------------------------------------------------- generators

var kwAlphabet = []string{"a", "b", "ab", "b", "a", "c", "aa", "zz"}
var kwExotic = []string{"", "\x00", "\x00\x00", "\xff\xff\xff\xff\xff\xff\xff\xff\xff\xff", "\xff\xff\xff\xff\xff\xff\xff\xff\xff\xff\xff", "\xff"}
var numAlphabet = []float64{-2, -1, 0, 1, 1, 2, 3, 1000, -1000, 0.5}
var scoreAlphabet = []float64{1, 1, 2, 0.5, 1.5}
var dateAlphabet = []int64{0, 1, -1, 1600000000000000000, 1600000000000000001, 946684800000000000}

// direct-drive fields: f0 keyword, f1 numeric, f2 date, f3 keyword (multi-valued)
func genStubDocs(rng *rand.Rand, n int, exotic bool, ncols int, uniqueCol int) []*stubDoc {
	docs := make([]*stubDoc, n)
	perm := rng.Perm(n)
	num := uint64(rng.Intn(3))
	for i := 0; i < n; i++ {
		num += uint64(1 + rng.Intn(3))
		d := &stubDoc{number: num, score: scoreAlphabet[rng.Intn(len(scoreAlphabet))],
			dv: map[int][][]byte{}, kw: map[int][]string{}, nums: map[int][]float64{}, dates: map[int][]int64{}}
		if rng.Intn(5) != 0 {
			v := kwAlphabet[rng.Intn(len(kwAlphabet))]
			if exotic && rng.Intn(4) == 0 {
				v = kwExotic[rng.Intn(len(kwExotic))]
			}
			d.kw[0] = []string{v}
		}
		if rng.Intn(5) != 0 {
			d.nums[1] = []float64{numAlphabet[rng.Intn(len(numAlphabet))]}
			if rng.Intn(6) == 0 {
				d.nums[1] = append(d.nums[1], numAlphabet[rng.Intn(len(numAlphabet))])
			}
		}
		if rng.Intn(5) != 0 {
			d.dates[2] = []int64{dateAlphabet[rng.Intn(len(dateAlphabet))]}
		}
		for k := rng.Intn(3); k > 0; k-- {
			d.kw[3] = append(d.kw[3], kwAlphabet[rng.Intn(len(kwAlphabet))])
		}
		for f, v := range d.kw {
			d.dv[f] = keywordTerms(v)
		}
		for f, v := range d.nums {
			d.dv[f] = numericTerms(v)
		}
		for f, v := range d.dates {
			d.dv[f] = dateTerms(v)
		}
		d.tab = make([][]byte, ncols)
		for c := 0; c < ncols; c++ {
			switch {
			case c == uniqueCol:
				d.tab[c] = []byte(fmt.Sprintf("u%03d", perm[i]))
			case rng.Intn(5) == 0:
				d.tab[c] = nil
			case exotic && rng.Intn(4) == 0:
				d.tab[c] = []byte(kwExotic[rng.Intn(len(kwExotic))])
			default:
				d.tab[c] = []byte(kwAlphabet[rng.Intn(len(kwAlphabet))])
			}
		}
		docs[i] = d
	}
	return docs
}

func genOrder(rng *rand.Rand, ncols int, uniqueCol int) []sortComp {
	k := 1 + rng.Intn(3)
	var o []sortComp
	for i := 0; i < k; i++ {
		c := sortComp{desc: rng.Intn(2) == 0, first: rng.Intn(2) == 0}
		switch rng.Intn(6) {
		case 0:
			c.kind = 0
		case 1, 2, 3:
			c.kind = 1
			c.field = rng.Intn(4)
		default:
			c.kind = 2
			c.col = rng.Intn(ncols)
			if c.col == uniqueCol { // the unique column is only used as the last component
				c.col = (c.col + 1) % ncols
				if c.col == uniqueCol {
					c.kind = 0
				}
			}
		}
		o = append(o, c)
	}
	if uniqueCol >= 0 {
		o = append(o, sortComp{kind: 2, col: uniqueCol, desc: rng.Intn(2) == 0, first: rng.Intn(2) == 0})
	}
	return o
}

// reference keys of the stub documents, from the generator's own knowledge of the values
func stubRefKeys(o []sortComp, docs []*stubDoc) (keys [][]refKey, multi bool) {
	keys = make([][]refKey, len(docs))
	for i, d := range docs {
		keys[i] = make([]refKey, len(o))
		for x, c := range o {
			switch c.kind {
			case 0:
				keys[i][x] = refKey{true, numeric.MustNewPrefixCodedInt64(numeric.Float64ToInt64(d.score), 0)}
			case 2:
				if d.tab[c.col] != nil {
					keys[i][x] = refKey{true, d.tab[c.col]}
				}
			default:
				switch {
				case len(d.kw[c.field]) > 0:
					vs := keywordTerms(d.kw[c.field])
					if len(vs) > 1 {
						multi = true
					}
					keys[i][x] = refKey{true, vs[0]}
				case len(d.nums[c.field]) > 0:
					if len(d.nums[c.field]) > 1 {
						multi = true
					}
					m := d.nums[c.field][0]
					for _, v := range d.nums[c.field] {
						if v < m {
							m = v
						}
					}
					keys[i][x] = refKey{true, numeric.MustNewPrefixCodedInt64(numeric.Float64ToInt64(m), 0)}
				case len(d.dates[c.field]) > 0:
					keys[i][x] = refKey{true, numeric.MustNewPrefixCodedInt64(d.dates[c.field][0], 0)}
				}
			}
		}
	}
	return keys, multi
}

func gridValues(rng *rand.Rand, cnt int, sw int) (sizes, skips []int) {
	set := func(vs ...int) []int {
		m := map[int]bool{}
		var out []int
		for _, v := range vs {
			if v >= 0 && !m[v] {
				m[v] = true
				out = append(out, v)
			}
		}
		sort.Ints(out)
		return out
	}
	sizes = set(0, 1, 2, 5, sw-1, sw, sw+1, sw+2, cnt-2, cnt-1, cnt, cnt+1, cnt+2, rng.Intn(70))
	skips = set(0, 1, 3, sw-1, sw, sw+1, cnt-1, cnt, cnt+2, rng.Intn(70))
	return
}

const switchPoint = 10 // only steers the grid; the model takes the constant from T-gen

func failKey(base string, rr refRanking) string {
	if rr.collide {
		return "C09-sentinel-collision"
	}
	return base
}

func runTopN(o Opts) error {
	rng := rand.New(rand.NewSource(o.Seed))
	w := cq.New(o.Out, "From Bluge Require Import Base.Res Search.Sort Search.TopN Search.TopNCorr.", "tcase", 4)
	nLists, nIdx := 110, 14
	if o.Thorough() {
		nLists, nIdx = 1200, 120
	}

	// ---- SortOrder.Compare on hand-made matches (ties, prefixes, descending, equal numbers)
	for i := 0; i < 160; i++ {
		k := 1 + rng.Intn(3)
		descs := make([]bool, k)
		so := make(search.SortOrder, k)
		ka, kb := make([][]byte, k), make([][]byte, k)
		for x := 0; x < k; x++ {
			descs[x] = rng.Intn(2) == 0
			so[x] = search.SortBy(search.DocumentScore())
			if descs[x] {
				so[x].Desc()
			}
			pool := append(append([]string{}, kwAlphabet...), kwExotic...)
			ka[x] = []byte(pool[rng.Intn(len(pool))])
			kb[x] = []byte(pool[rng.Intn(len(pool))])
			if rng.Intn(2) == 0 {
				kb[x] = ka[x]
			}
		}
		na, nb := 1+rng.Intn(3), 1+rng.Intn(3)
		got := so.Compare(&search.DocumentMatch{SortValue: ka, HitNumber: na}, &search.DocumentMatch{SortValue: kb, HitNumber: nb})
		ds := make([]string, k)
		for x := range descs {
			ds[x] = cq.B(descs[x])
		}
		w.Add(fmt.Sprintf("CCompare %s %s %s %s %s %s", cq.List(ds), cq.BytesList(ka), cq.BytesList(kb), cq.I(na), cq.I(nb), cq.I(got)),
			"compare", true, map[string]interface{}{"descs": descs, "a": fmt.Sprintf("%q", ka), "b": fmt.Sprintf("%q", kb), "na": na, "nb": nb, "got": got})
		// antisymmetry on the implementation
		back := so.Compare(&search.DocumentMatch{SortValue: kb, HitNumber: nb}, &search.DocumentMatch{SortValue: ka, HitNumber: na})
		w.OracleEval(1)
		if got != -back {
			w.OracleFail("C09-compare-antisym", "Compare(a,b) != -Compare(b,a)", fmt.Sprintf("%q %q", ka, kb))
		}
	}

	// ---- (a) the collector driven directly
	for li := 0; li < nLists; li++ {
		var n int
		switch rng.Intn(10) {
		case 0:
			n = rng.Intn(3)
		case 1, 2, 3:
			n = 8 + rng.Intn(6)
		default:
			n = rng.Intn(61)
		}
		exotic := li%7 == 3
		ncols := 1 + rng.Intn(3)
		uniqueCol := -1
		if rng.Intn(5) < 2 {
			uniqueCol = rng.Intn(ncols)
		}
		docs := genStubDocs(rng, n, exotic, ncols, uniqueCol)
		order := genOrder(rng, ncols, uniqueCol)
		docMap := map[uint64]*stubDoc{}
		for _, d := range docs {
			docMap[d.number] = d
		}
		mkOrder := func() search.SortOrder { return buildOrder(order, docMap, fieldName) }
		keys, multi := stubRefKeys(order, docs)
		rr := rank(order, keys)
		numberOf := func(i int) uint64 { return docs[i].number }
		meta := map[string]interface{}{"hits": n, "order": orderString(order), "exotic": exotic, "distinct": rr.distinct}
		w.Count("direct:hits", n)
		if rr.distinct {
			w.Count("direct:distinguishing-orders", 1)
		}
		if exotic {
			w.Count("direct:lists-with-sentinel-like-keys", 1)
		}

		var dqs []string
		var qmeta []string
		sizes, skips := gridValues(rng, n, switchPoint)
		type pt struct{ size, skip int }
		var pts []pt
		for _, s := range sizes {
			for _, k := range skips {
				pts = append(pts, pt{s, k})
			}
		}
		rng.Shuffle(len(pts), func(a, b int) { pts[a], pts[b] = pts[b], pts[a] })
		keep := 26
		if len(pts) < keep {
			keep = len(pts)
		}
		pts = append(pts[:keep], pt{0, 0}, pt{switchPoint, 0}, pt{switchPoint + 1, 0}, pt{n + 1, 0}, pt{3, n})
		for _, p := range pts {
			res, _, panicked, _ := runDirect(docs, mkOrder(), p.size, p.skip, nil, false, nil)
			dqs = append(dqs, fmt.Sprintf("DQ %s %s None false %s", cq.I(p.size), cq.I(p.skip), coqObs(res, panicked)))
			qmeta = append(qmeta, fmt.Sprintf("size=%d skip=%d -> %v", p.size, p.skip, numbersOf(res)))
			w.Count("direct:queries", 1)
			if !multi {
				w.OracleEval(1)
				want := sliceOf(rr.order, p.skip, p.size)
				if panicked || !sameNumbers(res, want, numberOf) {
					wantN := make([]uint64, len(want))
					for i, x := range want {
						wantN[i] = numberOf(x)
					}
					w.OracleFail(failKey("C09-topn-slice", rr), "result is not the [from, from+n) slice of the complete ranking",
						map[string]interface{}{"order": orderString(order), "size": p.size, "skip": p.skip, "got": numbersOf(res), "want": wantN,
							"hits": describeStub(docs), "panicked": panicked})
				}
			}
		}
		// negative arguments (run-time panics of the constructors / Final)
		if li%10 == 0 {
			for _, p := range []pt{{-1, 0}, {-3, 0}, {2, -1}, {-1, 4}, {switchPoint + 4, -2}} {
				res, _, panicked, _ := runDirect(docs, mkOrder(), p.size, p.skip, nil, false, nil)
				dqs = append(dqs, fmt.Sprintf("DQ %s %s None false %s", cq.I(p.size), cq.I(p.skip), coqObs(res, panicked)))
				qmeta = append(qmeta, fmt.Sprintf("size=%d skip=%d -> %v panicked=%v", p.size, p.skip, numbersOf(res), panicked))
				w.Count("direct:negative-arguments", 1)
			}
		}
		// search-after / reverse with keys taken from hits, random keys, short keys
		full, _, _, _ := runDirect(docs, mkOrder(), n+1, 0, nil, false, nil)
		posOf := map[uint64]int{}
		for i, x := range rr.order {
			posOf[numberOf(x)] = i
		}
		for q := 0; q < 7; q++ {
			var key [][]byte
			from := -1
			switch {
			case len(full) > 0 && q < 4:
				h := full[rng.Intn(len(full))]
				key = h.sortv
				from = posOf[h.number]
			case q == 4:
				key = make([][]byte, len(order))
				for x := range key {
					key[x] = []byte(kwAlphabet[rng.Intn(len(kwAlphabet))])
				}
			case q == 5 && len(order) > 1:
				key = [][]byte{[]byte(kwAlphabet[rng.Intn(len(kwAlphabet))])} // too short: panics when the first component ties
			default:
				key = make([][]byte, len(order)+1)
				for x := range key {
					key[x] = []byte(kwAlphabet[rng.Intn(len(kwAlphabet))])
				}
			}
			size := []int{0, 1, 2, 3, switchPoint, switchPoint + 1, n}[rng.Intn(7)]
			reverse := rng.Intn(4) == 0
			res, _, panicked, _ := runDirect(docs, mkOrder(), size, 0, key, reverse, nil)
			dqs = append(dqs, fmt.Sprintf("DQ %s 0 (Some %s) %s %s", cq.I(size), coqKey(key), cq.B(reverse), coqObs(res, panicked)))
			qmeta = append(qmeta, fmt.Sprintf("size=%d after=%q reverse=%v -> %v panicked=%v", size, key, reverse, numbersOf(res), panicked))
			w.Count("direct:after-queries", 1)
			if from >= 0 && rr.distinct && !multi && !reverse {
				w.OracleEval(1)
				want := sliceOf(rr.order, from+1, size)
				if panicked || !sameNumbers(res, want, numberOf) {
					w.OracleFail(failKey("C09-after-page", rr), "search-after page is not the next n matches of the ranking",
						map[string]interface{}{"order": orderString(order), "size": size, "after": fmt.Sprintf("%q", key), "got": numbersOf(res),
							"hits": describeStub(docs)})
				}
			}
		}
		// chained search-after under a distinguishing order: every match once, in order
		if rr.distinct && !multi && n > 0 {
			for _, page := range []int{1, 2, 3, 7, switchPoint, switchPoint + 1} {
				var seen []uint64
				res, _, _, _ := runDirect(docs, mkOrder(), page, 0, nil, false, nil)
				guard := 0
				for len(res) > 0 && guard < n+3 {
					seen = append(seen, numbersOf(res)...)
					res, _, _, _ = runDirect(docs, mkOrder(), page, 0, res[len(res)-1].sortv, false, nil)
					guard++
				}
				w.OracleEval(1)
				w.Count("direct:after-chains", 1)
				ok := len(seen) == n
				for i := 0; ok && i < n; i++ {
					ok = seen[i] == numberOf(rr.order[i])
				}
				if !ok {
					w.OracleFail(failKey("C09-paging-covers", rr), "chained search-after does not visit every match once in order",
						map[string]interface{}{"order": orderString(order), "page": page, "visited": seen, "hits": describeStub(docs)})
				}
			}
		}
		hs := make([]string, len(docs))
		for i, d := range docs {
			hs[i] = coqRawHit(d.number, d.score, d.dv, d.tab)
		}
		meta["queries"] = qmeta
		w.Add(fmt.Sprintf("CTopN %s [] %s\n %s []", coqOrder(order), cq.List(hs), cq.List(dqs)), "direct", n > 1 && len(order) > 0, meta)
	}

	// ---- (b) end to end: TopNSearch against AllMatches on in-memory indexes
	for ii := 0; ii < nIdx; ii++ {
		if err := topnEndToEnd(rng, w, ii); err != nil {
			return err
		}
	}
	topnSharedSortProbe(w)
	w.Close()
	return nil
}

func describeStub(docs []*stubDoc) []string {
	out := make([]string, len(docs))
	for i, d := range docs {
		out[i] = fmt.Sprintf("#%d score=%v kw=%q nums=%v dates=%v tab=%q", d.number, d.score, d.kw, d.nums, d.dates, d.tab)
	}
	return out
}

// ---------------------------------------------------------------- end to end

// index fields: f0 keyword, f1 numeric, f2 date, f4 unique keyword; "t" text for queries
type e2eDoc struct {
	id    string
	kw    *string
	num   []float64
	date  *int64
	uniq  string
	words []string
}

// recording aggregation: notes the doc values the collector sees for each hit
type recAgg struct {
	fields []string
	seen   *[]map[string][][]byte
}

func (r *recAgg) Fields() []string              { return r.fields }
func (r *recAgg) Calculator() search.Calculator { return &recCalc{r} }

type recCalc struct{ r *recAgg }

func (c *recCalc) Consume(d *search.DocumentMatch) {
	m := map[string][][]byte{}
	for _, f := range c.r.fields {
		for _, v := range d.DocValues(f) {
			m[f] = append(m[f], append([]byte{}, v...))
		}
	}
	*c.r.seen = append(*c.r.seen, m)
}
func (c *recCalc) Finish()                 {}
func (c *recCalc) Merge(search.Calculator) {}

func topnEndToEnd(rng *rand.Rand, w *cq.Writer, ii int) error {
	nd := rng.Intn(26)
	if ii%5 == 0 {
		nd = 9 + rng.Intn(5)
	}
	cfg := bluge.InMemoryOnlyConfig()
	wr, err := bluge.OpenWriter(cfg)
	if err != nil {
		return err
	}
	defer wr.Close()
	emptyKw := ii%3 == 1 // some indexes contain the empty keyword (a present key below the low sentinel)
	docs := map[string]*e2eDoc{}
	perm := rng.Perm(nd)
	vocab := []string{"red", "green", "blue"}
	batch := bluge.NewBatch()
	for i := 0; i < nd; i++ {
		d := &e2eDoc{id: fmt.Sprintf("d%02d", i), uniq: fmt.Sprintf("u%03d", perm[i])}
		if rng.Intn(5) != 0 {
			v := kwAlphabet[rng.Intn(len(kwAlphabet))]
			if emptyKw && rng.Intn(4) == 0 {
				v = ""
			}
			d.kw = &v
		}
		if rng.Intn(5) != 0 {
			d.num = []float64{numAlphabet[rng.Intn(len(numAlphabet))]}
		}
		if rng.Intn(5) != 0 {
			v := dateAlphabet[rng.Intn(len(dateAlphabet))]
			d.date = &v
		}
		for k := 1 + rng.Intn(4); k > 0; k-- {
			d.words = append(d.words, vocab[rng.Intn(len(vocab))])
		}
		docs[d.id] = d
		bd := bluge.NewDocument(d.id)
		if d.kw != nil {
			bd.AddField(bluge.NewKeywordField("f0", *d.kw).Sortable())
		}
		for _, v := range d.num {
			bd.AddField(bluge.NewNumericField("f1", v).Sortable())
		}
		if d.date != nil {
			bd.AddField(bluge.NewDateTimeField("f2", time.Unix(0, *d.date).UTC()).Sortable())
		}
		bd.AddField(bluge.NewKeywordField("f4", d.uniq).Sortable())
		bd.AddField(bluge.NewTextField("t", strings.Join(d.words, " ")))
		batch.Insert(bd)
		if rng.Intn(7) == 0 { // several segments
			if err := wr.Batch(batch); err != nil {
				return err
			}
			batch = bluge.NewBatch()
		}
	}
	if err := wr.Batch(batch); err != nil {
		return err
	}
	rd, err := wr.Reader()
	if err != nil {
		return err
	}
	defer rd.Close()

	mkQuery := func(k int) bluge.Query {
		switch k {
		case 0:
			return bluge.NewMatchAllQuery()
		case 1:
			return bluge.NewMatchQuery("red green").SetField("t")
		default:
			return bluge.NewTermQuery("blue").SetField("t")
		}
	}
	for qk := 0; qk < 3; qk++ {
		// sort order over the index fields
		k := 1 + rng.Intn(3)
		var order []sortComp
		for i := 0; i < k; i++ {
			c := sortComp{desc: rng.Intn(2) == 0, first: rng.Intn(2) == 0}
			switch rng.Intn(5) {
			case 0:
				c.kind = 0
			default:
				c.kind = 1
				c.field = rng.Intn(3)
			}
			order = append(order, c)
		}
		if rng.Intn(2) == 0 {
			order = append(order, sortComp{kind: 1, field: 4, desc: rng.Intn(2) == 0})
		}
		mkOrder := func() search.SortOrder { return buildOrder(order, nil, fieldName) }
		var fields []string
		for _, c := range order {
			if c.kind == 1 {
				fields = append(fields, fieldName(c.field))
			}
		}
		// the complete match list, in searcher order, with scores and the doc values of the sort fields
		var seen []map[string][][]byte
		all := bluge.NewAllMatches(mkQuery(qk))
		all.AddAggregation("rec", &recAgg{fields: fields, seen: &seen})
		it, err := rd.Search(context.Background(), all)
		if err != nil {
			return err
		}
		type match struct {
			number uint64
			score  float64
			doc    *e2eDoc
		}
		var matches []match
		for {
			m, err := it.Next()
			if err != nil {
				return err
			}
			if m == nil {
				break
			}
			var id string
			_ = m.VisitStoredFields(func(f string, v []byte) bool {
				if f == "_id" {
					id = string(v)
				}
				return true
			})
			matches = append(matches, match{m.Number, m.Score, docs[id]})
		}
		if len(seen) != len(matches) {
			return fmt.Errorf("recording aggregation saw %d hits, iterator returned %d", len(seen), len(matches))
		}
		n := len(matches)
		keys := make([][]refKey, n)
		for i, m := range matches {
			keys[i] = make([]refKey, len(order))
			for x, c := range order {
				switch {
				case c.kind == 0:
					keys[i][x] = refKey{true, numeric.MustNewPrefixCodedInt64(numeric.Float64ToInt64(m.score), 0)}
				case c.field == 0 && m.doc.kw != nil:
					keys[i][x] = refKey{true, []byte(*m.doc.kw)}
				case c.field == 1 && len(m.doc.num) > 0:
					keys[i][x] = refKey{true, numeric.MustNewPrefixCodedInt64(numeric.Float64ToInt64(m.doc.num[0]), 0)}
				case c.field == 2 && m.doc.date != nil:
					keys[i][x] = refKey{true, numeric.MustNewPrefixCodedInt64(*m.doc.date, 0)}
				case c.field == 4:
					keys[i][x] = refKey{true, []byte(m.doc.uniq)}
				}
			}
		}
		rr := rank(order, keys)
		numberOf := func(i int) uint64 { return matches[i].number }
		describe := func() []string {
			out := make([]string, n)
			for i, m := range matches {
				kw := "<missing>"
				if m.doc.kw != nil {
					kw = fmt.Sprintf("%q", *m.doc.kw)
				}
				out[i] = fmt.Sprintf("#%d %s score=%v f0=%s f1=%v f2=%v f4=%s", m.number, m.doc.id, m.score, kw, m.doc.num, m.doc.date, m.doc.uniq)
			}
			return out
		}
		search1 := func(size int, from int, after, before [][]byte, so search.SortOrder) (res []hitObs, panicked bool) {
			defer func() {
				if r := recover(); r != nil {
					res, panicked = nil, true
				}
			}()
			req := bluge.NewTopNSearch(size, mkQuery(qk)).SortByCustom(so)
			switch {
			case after != nil:
				req.After(after)
			case before != nil:
				req.Before(before)
			default:
				req.SetFrom(from)
			}
			it, err := rd.Search(context.Background(), req)
			if err != nil {
				panic(err)
			}
			res, err = drain(it)
			if err != nil {
				panic(err)
			}
			return res, false
		}
		var rqs, qmeta []string
		sizes, skips := gridValues(rng, n, switchPoint)
		for _, s := range sizes {
			for _, k := range skips {
				if rng.Intn(3) != 0 && !(k == 0 && (s == switchPoint || s == switchPoint+1)) {
					continue
				}
				res, panicked := search1(s, k, nil, nil, mkOrder())
				rqs = append(rqs, fmt.Sprintf("RQ %s (PFrom %s) %s", cq.I(s), cq.I(k), coqObs(res, panicked)))
				qmeta = append(qmeta, fmt.Sprintf("n=%d from=%d -> %v", s, k, numbersOf(res)))
				w.Count("e2e:queries", 1)
				w.OracleEval(1)
				want := sliceOf(rr.order, k, s)
				if panicked || !sameNumbers(res, want, numberOf) {
					wantN := make([]uint64, len(want))
					for i, x := range want {
						wantN[i] = numberOf(x)
					}
					w.OracleFail(failKey("C09-topn-slice", rr), "TopNSearch result is not the [from, from+n) slice of the ranking of AllMatches",
						map[string]interface{}{"order": orderString(order), "n": s, "from": k, "got": numbersOf(res), "want": wantN, "matches": describe()})
				}
			}
		}
		full, _ := search1(n+1, 0, nil, nil, mkOrder())
		posOf := map[uint64]int{}
		for i, x := range rr.order {
			posOf[numberOf(x)] = i
		}
		for q := 0; q < 6 && len(full) > 0; q++ {
			h := full[rng.Intn(len(full))]
			size := []int{0, 1, 2, 3, switchPoint + 1, n}[rng.Intn(6)]
			before := q%2 == 1
			var res []hitObs
			var panicked bool
			if before {
				res, panicked = search1(size, 0, nil, h.sortv, mkOrder())
				rqs = append(rqs, fmt.Sprintf("RQ %s (PBefore %s) %s", cq.I(size), coqKey(h.sortv), coqObs(res, panicked)))
			} else {
				res, panicked = search1(size, 0, h.sortv, nil, mkOrder())
				rqs = append(rqs, fmt.Sprintf("RQ %s (PAfter %s) %s", cq.I(size), coqKey(h.sortv), coqObs(res, panicked)))
			}
			qmeta = append(qmeta, fmt.Sprintf("n=%d before=%v key=%q -> %v", size, before, h.sortv, numbersOf(res)))
			w.Count("e2e:after-before-queries", 1)
			if rr.distinct {
				w.OracleEval(1)
				p := posOf[h.number]
				want := sliceOf(rr.order, p+1, size)
				if before {
					lo := p - size
					if lo < 0 {
						lo = 0
					}
					want = rr.order[lo:p]
				}
				if panicked || !sameNumbers(res, want, numberOf) {
					w.OracleFail(failKey("C09-after-before-page", rr), "After/Before page is not the adjacent n matches of the ranking, in ranking order",
						map[string]interface{}{"order": orderString(order), "n": size, "before": before, "key": fmt.Sprintf("%q", h.sortv),
							"got": numbersOf(res), "matches": describe()})
				}
			}
		}
		if rr.distinct && n > 0 {
			for _, page := range []int{1, 2, 3, switchPoint + 1} {
				// forward chain
				var seenN []uint64
				res, _ := search1(page, 0, nil, nil, mkOrder())
				for guard := 0; len(res) > 0 && guard < n+3; guard++ {
					seenN = append(seenN, numbersOf(res)...)
					res, _ = search1(page, 0, res[len(res)-1].sortv, nil, mkOrder())
				}
				w.OracleEval(1)
				w.Count("e2e:chains", 1)
				ok := len(seenN) == n
				for i := 0; ok && i < n; i++ {
					ok = seenN[i] == numberOf(rr.order[i])
				}
				if !ok {
					w.OracleFail(failKey("C09-paging-covers", rr), "chained After does not visit every match once in order",
						map[string]interface{}{"order": orderString(order), "page": page, "visited": seenN, "matches": describe()})
				}
				// backward chain from the last match
				last := full[len(full)-1]
				back := []uint64{last.number}
				res, _ = search1(page, 0, nil, last.sortv, mkOrder())
				for guard := 0; len(res) > 0 && guard < n+3; guard++ {
					back = append(numbersOf(res), back...)
					res, _ = search1(page, 0, nil, res[0].sortv, mkOrder())
				}
				w.OracleEval(1)
				w.Count("e2e:chains", 1)
				ok = len(back) == n
				for i := 0; ok && i < n; i++ {
					ok = back[i] == numberOf(rr.order[i])
				}
				if !ok {
					w.OracleFail(failKey("C09-paging-covers", rr), "chained Before does not visit every match once in order",
						map[string]interface{}{"order": orderString(order), "page": page, "visited": back, "matches": describe()})
				}
			}
		}
		hs := make([]string, n)
		for i, m := range matches {
			dv := map[int][][]byte{}
			for f, vs := range seen[i] {
				dv[fieldID(f)] = vs
			}
			hs[i] = coqRawHit(m.number, m.score, dv, nil)
		}
		w.Add(fmt.Sprintf("CTopN %s [] %s\n [] %s", coqOrder(order), cq.List(hs), cq.List(rqs)), "e2e", n > 1,
			map[string]interface{}{"index": ii, "docs": nd, "query": qk, "matches": n, "order": orderString(order), "queries": qmeta, "distinct": rr.distinct})
		w.Count("e2e:matches", n)
	}
	return nil
}

// topnSharedSortProbe: one search.SortOrder value shared by successive Before requests (the
// request documents that it preserves the caller's order).
func topnSharedSortProbe(w *cq.Writer) {
	cfg := bluge.InMemoryOnlyConfig()
	wr, err := bluge.OpenWriter(cfg)
	if err != nil {
		return
	}
	defer wr.Close()
	b := bluge.NewBatch()
	for i := 0; i < 6; i++ {
		d := bluge.NewDocument(fmt.Sprint(i))
		d.AddField(bluge.NewNumericField("price", float64(i)).Sortable())
		b.Insert(d)
	}
	if wr.Batch(b) != nil {
		return
	}
	rd, err := wr.Reader()
	if err != nil {
		return
	}
	defer rd.Close()
	so := search.SortOrder{search.SortBy(search.Field("price"))}
	key := [][]byte{numeric.MustNewPrefixCodedInt64(numeric.Float64ToInt64(4), 0)}
	var runs [][]uint64
	for k := 0; k < 3; k++ {
		req := bluge.NewTopNSearch(2, bluge.NewMatchAllQuery()).SortByCustom(so).Before(key)
		it, err := rd.Search(context.Background(), req)
		if err != nil {
			return
		}
		res, _ := drain(it)
		runs = append(runs, numbersOf(res))
	}
	w.OracleEval(1)
	for k := 1; k < len(runs); k++ {
		if fmt.Sprint(runs[k]) != fmt.Sprint(runs[0]) {
			w.OracleFail("C09-before-mutates-shared-sort", "the same Before request with a shared SortOrder returns different pages on repetition",
				map[string]interface{}{"sort": "price asc", "before": "4", "n": 2, "runs": runs})
			return
		}
	}
}
