package engines

// Engine topn (C09): (a) drives collector.NewTopNCollector / NewTopNCollectorAfter directly with
// generated match lists through a stub searcher and a stub doc-value reader; (b) runs
// bluge.TopNSearch (SetFrom / After / Before) against bluge.AllMatches on small in-memory
// indexes.  Every observed result list becomes part of a correspondence case for
// Search/TopNCorr.v; the property itself (result = the [from, from+n) slice of the complete
// ranking; paging chains cover every match once, in order) is evaluated directly in Go by
// stableSort + slicing, independent of the model.

import (
	"bytes"
	"context"
	"fmt"
	"math"
	"math/rand"
	"sort"
	"strings"
	"time"

	"github.com/blugelabs/bluge"
	"github.com/blugelabs/bluge/numeric"
	"github.com/blugelabs/bluge/search"
	"github.com/blugelabs/bluge/search/collector"
	segment "github.com/blugelabs/bluge_segment_api"

	"verif/harness/cq"
)

func init() { Registry["topn"] = runTopN }

// ---------------------------------------------------------------- stubs shared with the aggs engine

// topnStubDoc is one match as a searcher would produce it, with the document's doc values.
type topnStubDoc struct {
	number uint64
	score  float64
	dv     map[int][][]byte // field id -> terms in the order a segment visits them (sorted, distinct)
	tab    [][]byte         // values of table sources (nil = missing)
	// generator-side knowledge used only by the oracles
	kw    map[int][]string
	nums  map[int][]float64
	dates map[int][]int64
}

func topnFieldName(id int) string { return fmt.Sprintf("f%d", id) }
func topnFieldID(name string) int {
	var id int
	fmt.Sscanf(name, "f%d", &id)
	return id
}

type topnStubReader struct{ docs map[uint64]*topnStubDoc }

type topnStubDVR struct {
	r      *topnStubReader
	fields []string
}

// as ice does: every field named in the reader's list is visited, in list order (a field named
// twice is visited twice)
func (d *topnStubDVR) VisitDocumentValues(number uint64, visitor segment.DocumentValueVisitor) error {
	doc := d.r.docs[number]
	if doc == nil {
		return fmt.Errorf("no such doc %d", number)
	}
	for _, f := range d.fields {
		for _, t := range doc.dv[topnFieldID(f)] {
			visitor(f, t)
		}
	}
	return nil
}

func (r *topnStubReader) DocumentValueReader(fields []string) (segment.DocumentValueReader, error) {
	return &topnStubDVR{r: r, fields: append([]string{}, fields...)}, nil
}

func (r *topnStubReader) VisitStoredFields(number uint64, visitor segment.StoredFieldVisitor) error {
	return nil
}

type topnStubSearcher struct {
	docs   []*topnStubDoc
	i      int
	reader *topnStubReader
}

func topnNewStubSearcher(docs []*topnStubDoc) *topnStubSearcher {
	r := &topnStubReader{docs: map[uint64]*topnStubDoc{}}
	for _, d := range docs {
		r.docs[d.number] = d
	}
	return &topnStubSearcher{docs: docs, reader: r}
}

func (s *topnStubSearcher) Next(ctx *search.Context) (*search.DocumentMatch, error) {
	if s.i >= len(s.docs) {
		return nil, nil
	}
	d := s.docs[s.i]
	s.i++
	m := ctx.DocumentMatchPool.Get()
	m.Number = d.number
	m.Score = d.score
	m.SetReader(s.reader)
	return m, nil
}
func (s *topnStubSearcher) DocumentMatchPoolSize() int { return 0 }
func (s *topnStubSearcher) Close() error               { return nil }

// topnTableSource: a caller-defined TextValueSource without fields
type topnTableSource struct {
	col  int
	docs map[uint64]*topnStubDoc
}

func (t *topnTableSource) Fields() []string { return nil }
func (t *topnTableSource) Value(m *search.DocumentMatch) []byte {
	d := t.docs[m.Number]
	if d == nil || t.col >= len(d.tab) {
		return nil
	}
	return d.tab[t.col]
}

// numeric doc values as a segment returns them: sorted distinct terms; the stub keeps the
// shift-0 and the shift-4 token of every value (ice keeps all sixteen)
func topnNumericTerms(vals []float64) [][]byte {
	var out [][]byte
	seen := map[string]bool{}
	for _, v := range vals {
		i := numeric.Float64ToInt64(v)
		for _, sh := range []uint{0, 4} {
			t := []byte(numeric.MustNewPrefixCodedInt64(i, sh))
			if !seen[string(t)] {
				seen[string(t)] = true
				out = append(out, t)
			}
		}
	}
	sort.Slice(out, func(a, b int) bool { return bytes.Compare(out[a], out[b]) < 0 })
	return out
}

func topnDateTerms(ns []int64) [][]byte {
	var out [][]byte
	seen := map[string]bool{}
	for _, v := range ns {
		for _, sh := range []uint{0, 4} {
			t := []byte(numeric.MustNewPrefixCodedInt64(v, sh))
			if !seen[string(t)] {
				seen[string(t)] = true
				out = append(out, t)
			}
		}
	}
	sort.Slice(out, func(a, b int) bool { return bytes.Compare(out[a], out[b]) < 0 })
	return out
}

func topnKeywordTerms(vals []string) [][]byte {
	var out [][]byte
	seen := map[string]bool{}
	for _, v := range vals {
		if !seen[v] {
			seen[v] = true
			out = append(out, []byte(v))
		}
	}
	sort.Slice(out, func(a, b int) bool { return bytes.Compare(out[a], out[b]) < 0 })
	return out
}

// ---------------------------------------------------------------- Coq printing

func topnCoqOptBytes(b []byte) string {
	if b == nil {
		return "None"
	}
	return cq.Some(cq.Bytes(b))
}

func topnCoqRawHit(number uint64, score float64, dv map[int][][]byte, tab [][]byte) string {
	ids := make([]int, 0, len(dv))
	for id := range dv {
		ids = append(ids, id)
	}
	sort.Ints(ids)
	var dvs []string
	for _, id := range ids {
		if len(dv[id]) == 0 {
			continue
		}
		dvs = append(dvs, cq.Pair(cq.I(id), cq.BytesList(dv[id])))
	}
	tabs := make([]string, len(tab))
	for i, t := range tab {
		tabs[i] = topnCoqOptBytes(t)
	}
	return fmt.Sprintf("(Build_rawhit %s %s %s %s)", cq.U(number), cq.U(math.Float64bits(score)), cq.List(dvs), cq.List(tabs))
}

type topnSortComp struct {
	kind  int // 0 score, 1 field, 2 table
	field int
	col   int
	desc  bool
	first bool
}

func (c topnSortComp) coq() string {
	src := "TSScore"
	switch c.kind {
	case 1:
		src = fmt.Sprintf("(TSField %d)", c.field)
	case 2:
		src = fmt.Sprintf("(TSTab %s)", cq.Nat(c.col))
	}
	return fmt.Sprintf("(Build_sortspec %s %s %s)", src, cq.B(c.desc), cq.B(c.first))
}

func (c topnSortComp) String() string {
	s := "_score"
	switch c.kind {
	case 1:
		s = topnFieldName(c.field)
	case 2:
		s = fmt.Sprintf("tab%d", c.col)
	}
	if c.desc {
		s = "-" + s
	}
	if c.first {
		s += "^first"
	}
	return s
}

func topnCoqOrder(o []topnSortComp) string {
	it := make([]string, len(o))
	for i, c := range o {
		it[i] = c.coq()
	}
	return cq.List(it)
}

func topnOrderString(o []topnSortComp) string {
	it := make([]string, len(o))
	for i, c := range o {
		it[i] = c.String()
	}
	return strings.Join(it, ",")
}

func topnBuildOrder(o []topnSortComp, docs map[uint64]*topnStubDoc, nameOf func(int) string) search.SortOrder {
	var so search.SortOrder
	for _, c := range o {
		var src search.TextValueSource
		switch c.kind {
		case 0:
			src = search.DocumentScore()
		case 1:
			src = search.Field(nameOf(c.field))
		default:
			src = &topnTableSource{col: c.col, docs: docs}
		}
		s := search.SortBy(src)
		if c.desc {
			s.Desc()
		}
		if c.first {
			s.MissingFirst()
		}
		so = append(so, s)
	}
	return so
}

type topnHitObs struct {
	number uint64
	sortv  [][]byte
}

func topnCoqObs(res []topnHitObs, panicked bool) string {
	if panicked {
		return "None"
	}
	it := make([]string, len(res))
	for i, h := range res {
		it[i] = cq.Pair(cq.U(h.number), cq.BytesList(h.sortv))
	}
	return cq.Some(cq.List(it))
}

func topnCoqKey(k [][]byte) string { return cq.BytesList(k) }

func topnDrain(it search.DocumentMatchIterator) ([]topnHitObs, error) {
	var out []topnHitObs
	for {
		m, err := it.Next()
		if err != nil {
			return out, err
		}
		if m == nil {
			return out, nil
		}
		sv := make([][]byte, len(m.SortValue))
		for i, b := range m.SortValue {
			sv[i] = append([]byte{}, b...)
		}
		out = append(out, topnHitObs{number: m.Number, sortv: sv})
	}
}

// topnRunDirect drives the collector; after == nil selects NewTopNCollector.
func topnRunDirect(docs []*topnStubDoc, so search.SortOrder, size, skip int, after [][]byte, reverse bool,
	aggs search.Aggregations) (res []topnHitObs, bucket *search.Bucket, panicked bool, perr interface{}) {
	defer func() {
		if r := recover(); r != nil {
			res, bucket, panicked, perr = nil, nil, true, r
		}
	}()
	var c *collector.TopNCollector
	if after != nil {
		c = collector.NewTopNCollectorAfter(size, so, after, reverse)
	} else {
		c = collector.NewTopNCollector(size, skip, so)
	}
	if aggs == nil {
		aggs = search.Aggregations{}
	}
	it, err := c.Collect(context.Background(), aggs, topnNewStubSearcher(docs))
	if err != nil {
		panic(err)
	}
	res, err = topnDrain(it)
	if err != nil {
		panic(err)
	}
	return res, it.Aggregations(), false, nil
}

// ---------------------------------------------------------------- the reference ranking (oracle)

type topnRefKey struct {
	present bool
	b       []byte
}

// topnRefCompare: the documented order: per component present values bytewise (descending negates),
// a missing value first or last as requested, remaining ties by index order (stable sort).
func topnRefCompare(o []topnSortComp, a, b []topnRefKey) int {
	for x, c := range o {
		ka, kb := a[x], b[x]
		switch {
		case !ka.present && !kb.present:
			continue
		case !ka.present:
			if c.first {
				return -1
			}
			return 1
		case !kb.present:
			if c.first {
				return 1
			}
			return -1
		}
		r := bytes.Compare(ka.b, kb.b)
		if r == 0 {
			continue
		}
		if c.desc {
			r = -r
		}
		return r
	}
	return 0
}

var topnImplLowTerm = []byte{0x00}
var topnImplHighTerm = bytes.Repeat([]byte{0xff}, 10)

// a present key at or beyond the sentinels substituted for missing values
func topnKeyCollides(k topnRefKey) bool {
	return k.present && (bytes.Compare(k.b, topnImplLowTerm) <= 0 || bytes.Compare(k.b, topnImplHighTerm) >= 0)
}

type topnRefRanking struct {
	order    []int // indexes into the hit list, best first
	distinct bool  // the order distinguishes all matches
	collide  bool  // some present key collides with a sentinel while some value of that component is missing
}

func topnRank(o []topnSortComp, keys [][]topnRefKey) topnRefRanking {
	n := len(keys)
	idx := make([]int, n)
	for i := range idx {
		idx[i] = i
	}
	sort.SliceStable(idx, func(a, b int) bool { return topnRefCompare(o, keys[idx[a]], keys[idx[b]]) < 0 })
	rr := topnRefRanking{order: idx, distinct: true}
	for i := 0; i+1 < n; i++ {
		if topnRefCompare(o, keys[idx[i]], keys[idx[i+1]]) == 0 {
			rr.distinct = false
		}
	}
	for x := range o {
		missing, coll := false, false
		for _, k := range keys {
			if !k[x].present {
				missing = true
			}
			if topnKeyCollides(k[x]) {
				coll = true
			}
		}
		if missing && coll {
			rr.collide = true
		}
	}
	return rr
}

func topnSliceOf(order []int, from, n int) []int {
	if from < 0 {
		from = 0
	}
	if from > len(order) {
		from = len(order)
	}
	end := from + n
	if n < 0 {
		end = from
	}
	if end > len(order) {
		end = len(order)
	}
	return order[from:end]
}

func topnSameNumbers(res []topnHitObs, want []int, numberOf func(int) uint64) bool {
	if len(res) != len(want) {
		return false
	}
	for i := range res {
		if res[i].number != numberOf(want[i]) {
			return false
		}
	}
	return true
}

func topnNumbersOf(res []topnHitObs) []uint64 {
	out := make([]uint64, len(res))
	for i, h := range res {
		out[i] = h.number
	}
	return out
}

// ---------------------------------------------------------------- generators

var topnKwAlphabet = []string{"a", "b", "ab", "b", "a", "c", "aa", "zz"}
var topnKwExotic = []string{"", "\x00", "\x00\x00", "\xff\xff\xff\xff\xff\xff\xff\xff\xff\xff", "\xff\xff\xff\xff\xff\xff\xff\xff\xff\xff\xff", "\xff"}
var topnNumAlphabet = []float64{-2, -1, 0, 1, 1, 2, 3, 1000, -1000, 0.5}
var topnScoreAlphabet = []float64{1, 1, 2, 0.5, 1.5}
var topnDateAlphabet = []int64{0, 1, -1, 1600000000000000000, 1600000000000000001, 946684800000000000}

// direct-drive fields: f0 keyword, f1 numeric, f2 date, f3 keyword (multi-valued)
func topnGenStubDocs(rng *rand.Rand, n int, exotic bool, ncols int, uniqueCol int) []*topnStubDoc {
	docs := make([]*topnStubDoc, n)
	perm := rng.Perm(n)
	num := uint64(rng.Intn(3))
	for i := 0; i < n; i++ {
		num += uint64(1 + rng.Intn(3))
		d := &topnStubDoc{number: num, score: topnScoreAlphabet[rng.Intn(len(topnScoreAlphabet))],
			dv: map[int][][]byte{}, kw: map[int][]string{}, nums: map[int][]float64{}, dates: map[int][]int64{}}
		if rng.Intn(5) != 0 {
			v := topnKwAlphabet[rng.Intn(len(topnKwAlphabet))]
			if exotic && rng.Intn(4) == 0 {
				v = topnKwExotic[rng.Intn(len(topnKwExotic))]
			}
			d.kw[0] = []string{v}
		}
		if rng.Intn(5) != 0 {
			d.nums[1] = []float64{topnNumAlphabet[rng.Intn(len(topnNumAlphabet))]}
			if rng.Intn(6) == 0 {
				if v := topnNumAlphabet[rng.Intn(len(topnNumAlphabet))]; v != d.nums[1][0] {
					d.nums[1] = append(d.nums[1], v)
				}
			}
		}
		if rng.Intn(5) != 0 {
			d.dates[2] = []int64{topnDateAlphabet[rng.Intn(len(topnDateAlphabet))]}
		}
		for k := rng.Intn(3); k > 0; k-- {
			d.kw[3] = append(d.kw[3], topnKwAlphabet[rng.Intn(len(topnKwAlphabet))])
		}
		// f5 numeric multi-valued (distinct values), f6 positive integer weight: read by the aggs engine only
		for k := rng.Intn(4); k > 0; k-- {
			v := topnNumAlphabet[rng.Intn(len(topnNumAlphabet))]
			dup := false
			for _, x := range d.nums[5] {
				dup = dup || x == v
			}
			if !dup {
				d.nums[5] = append(d.nums[5], v)
			}
		}
		if rng.Intn(4) != 0 {
			d.nums[6] = []float64{float64(1 + rng.Intn(4))}
		}
		for f, v := range d.kw {
			d.dv[f] = topnKeywordTerms(v)
		}
		for f, v := range d.nums {
			d.dv[f] = topnNumericTerms(v)
		}
		for f, v := range d.dates {
			d.dv[f] = topnDateTerms(v)
		}
		d.tab = make([][]byte, ncols)
		for c := 0; c < ncols; c++ {
			switch {
			case c == uniqueCol:
				d.tab[c] = []byte(fmt.Sprintf("u%03d", perm[i]))
			case rng.Intn(5) == 0:
				d.tab[c] = nil
			case exotic && rng.Intn(4) == 0:
				d.tab[c] = []byte(topnKwExotic[rng.Intn(len(topnKwExotic))])
			default:
				d.tab[c] = []byte(topnKwAlphabet[rng.Intn(len(topnKwAlphabet))])
			}
		}
		docs[i] = d
	}
	return docs
}

func topnGenOrder(rng *rand.Rand, ncols int, uniqueCol int) []topnSortComp {
	k := 1 + rng.Intn(3)
	var o []topnSortComp
	for i := 0; i < k; i++ {
		c := topnSortComp{desc: rng.Intn(2) == 0, first: rng.Intn(2) == 0}
		switch rng.Intn(6) {
		case 0:
			c.kind = 0
		case 1, 2, 3:
			c.kind = 1
			c.field = rng.Intn(4)
		default:
			c.kind = 2
			c.col = rng.Intn(ncols)
			if c.col == uniqueCol { // the unique column is only used as the last component
				c.col = (c.col + 1) % ncols
				if c.col == uniqueCol {
					c.kind = 0
				}
			}
		}
		o = append(o, c)
	}
	if uniqueCol >= 0 {
		o = append(o, topnSortComp{kind: 2, col: uniqueCol, desc: rng.Intn(2) == 0, first: rng.Intn(2) == 0})
	}
	return o
}

// reference keys of the stub documents, from the generator's own knowledge of the values
func topnStubRefKeys(o []topnSortComp, docs []*topnStubDoc) (keys [][]topnRefKey, multi bool) {
	keys = make([][]topnRefKey, len(docs))
	for i, d := range docs {
		keys[i] = make([]topnRefKey, len(o))
		for x, c := range o {
			switch c.kind {
			case 0:
				keys[i][x] = topnRefKey{true, numeric.MustNewPrefixCodedInt64(numeric.Float64ToInt64(d.score), 0)}
			case 2:
				if d.tab[c.col] != nil {
					keys[i][x] = topnRefKey{true, d.tab[c.col]}
				}
			default:
				switch {
				case len(d.kw[c.field]) > 0:
					vs := topnKeywordTerms(d.kw[c.field])
					if len(vs) > 1 {
						multi = true
					}
					keys[i][x] = topnRefKey{true, vs[0]}
				case len(d.nums[c.field]) > 0:
					if len(d.nums[c.field]) > 1 {
						multi = true
					}
					m := d.nums[c.field][0]
					for _, v := range d.nums[c.field] {
						if v < m {
							m = v
						}
					}
					keys[i][x] = topnRefKey{true, numeric.MustNewPrefixCodedInt64(numeric.Float64ToInt64(m), 0)}
				case len(d.dates[c.field]) > 0:
					keys[i][x] = topnRefKey{true, numeric.MustNewPrefixCodedInt64(d.dates[c.field][0], 0)}
				}
			}
		}
	}
	return keys, multi
}

func topnGridValues(rng *rand.Rand, cnt int, sw int) (sizes, skips []int) {
	set := func(vs ...int) []int {
		m := map[int]bool{}
		var out []int
		for _, v := range vs {
			if v >= 0 && !m[v] {
				m[v] = true
				out = append(out, v)
			}
		}
		sort.Ints(out)
		return out
	}
	sizes = set(0, 1, 2, 5, sw-1, sw, sw+1, sw+2, cnt-2, cnt-1, cnt, cnt+1, cnt+2, rng.Intn(70))
	skips = set(0, 1, 3, sw-1, sw, sw+1, cnt-1, cnt, cnt+2, rng.Intn(70))
	return
}

const topnSwitchPoint = 10 // only steers the grid; the model takes the constant from T-gen

func topnFailKey(base string, rr topnRefRanking) string {
	if rr.collide {
		return "C09-sentinel-collision"
	}
	return base
}

func runTopN(o Opts) error {
	rng := rand.New(rand.NewSource(o.Seed))
	w := cq.New(o.Out, "From Bluge Require Import Base.Res Search.Sort Search.TopN Search.TopNCorr.", "tcase", 16)
	nLists, nIdx := 90, 10
	if o.Thorough() {
		nLists, nIdx = 1200, 120
	}

	// ---- SortOrder.Compare on hand-made matches (ties, prefixes, descending, equal numbers)
	for i := 0; i < 160; i++ {
		k := 1 + rng.Intn(3)
		descs := make([]bool, k)
		so := make(search.SortOrder, k)
		ka, kb := make([][]byte, k), make([][]byte, k)
		for x := 0; x < k; x++ {
			descs[x] = rng.Intn(2) == 0
			so[x] = search.SortBy(search.DocumentScore())
			if descs[x] {
				so[x].Desc()
			}
			pool := append(append([]string{}, topnKwAlphabet...), topnKwExotic...)
			ka[x] = []byte(pool[rng.Intn(len(pool))])
			kb[x] = []byte(pool[rng.Intn(len(pool))])
			if rng.Intn(2) == 0 {
				kb[x] = ka[x]
			}
		}
		na, nb := 1+rng.Intn(3), 1+rng.Intn(3)
		got := so.Compare(&search.DocumentMatch{SortValue: ka, HitNumber: na}, &search.DocumentMatch{SortValue: kb, HitNumber: nb})
		ds := make([]string, k)
		for x := range descs {
			ds[x] = cq.B(descs[x])
		}
		w.Add(fmt.Sprintf("CCompare %s %s %s %s %s %s", cq.List(ds), cq.BytesList(ka), cq.BytesList(kb), cq.I(na), cq.I(nb), cq.I(got)),
			"compare", true, map[string]interface{}{"descs": descs, "a": fmt.Sprintf("%q", ka), "b": fmt.Sprintf("%q", kb), "na": na, "nb": nb, "got": got})
		// antisymmetry on the implementation
		back := so.Compare(&search.DocumentMatch{SortValue: kb, HitNumber: nb}, &search.DocumentMatch{SortValue: ka, HitNumber: na})
		w.OracleEval(1)
		if got != -back {
			w.OracleFail("C09-compare-antisym", "Compare(a,b) != -Compare(b,a)", fmt.Sprintf("%q %q", ka, kb))
		}
	}

	// ---- (a) the collector driven directly
	for li := 0; li < nLists; li++ {
		var n int
		switch rng.Intn(10) {
		case 0:
			n = rng.Intn(3)
		case 1, 2, 3:
			n = 8 + rng.Intn(6)
		default:
			n = rng.Intn(61)
		}
		exotic := li%7 == 3
		ncols := 1 + rng.Intn(3)
		uniqueCol := -1
		if rng.Intn(5) < 2 {
			uniqueCol = rng.Intn(ncols)
		}
		docs := topnGenStubDocs(rng, n, exotic, ncols, uniqueCol)
		order := topnGenOrder(rng, ncols, uniqueCol)
		docMap := map[uint64]*topnStubDoc{}
		for _, d := range docs {
			docMap[d.number] = d
		}
		mkOrder := func() search.SortOrder { return topnBuildOrder(order, docMap, topnFieldName) }
		keys, multi := topnStubRefKeys(order, docs)
		rr := topnRank(order, keys)
		numberOf := func(i int) uint64 { return docs[i].number }
		meta := map[string]interface{}{"hits": n, "order": topnOrderString(order), "exotic": exotic, "distinct": rr.distinct}
		w.Count("direct:hits", n)
		if rr.distinct {
			w.Count("direct:distinguishing-orders", 1)
		}
		if exotic {
			w.Count("direct:lists-with-sentinel-like-keys", 1)
		}

		var dqs []string
		var qmeta []string
		sizes, skips := topnGridValues(rng, n, topnSwitchPoint)
		type pt struct{ size, skip int }
		var pts []pt
		for _, s := range sizes {
			for _, k := range skips {
				pts = append(pts, pt{s, k})
			}
		}
		rng.Shuffle(len(pts), func(a, b int) { pts[a], pts[b] = pts[b], pts[a] })
		keep := 26
		if len(pts) < keep {
			keep = len(pts)
		}
		pts = append(pts[:keep], pt{0, 0}, pt{topnSwitchPoint, 0}, pt{topnSwitchPoint + 1, 0}, pt{n + 1, 0}, pt{3, n})
		for _, p := range pts {
			res, _, panicked, _ := topnRunDirect(docs, mkOrder(), p.size, p.skip, nil, false, nil)
			dqs = append(dqs, fmt.Sprintf("DQ %s %s None false %s", cq.I(p.size), cq.I(p.skip), topnCoqObs(res, panicked)))
			qmeta = append(qmeta, fmt.Sprintf("size=%d skip=%d -> %v", p.size, p.skip, topnNumbersOf(res)))
			w.Count("direct:queries", 1)
			if !multi {
				w.OracleEval(1)
				want := topnSliceOf(rr.order, p.skip, p.size)
				if panicked || !topnSameNumbers(res, want, numberOf) {
					wantN := make([]uint64, len(want))
					for i, x := range want {
						wantN[i] = numberOf(x)
					}
					w.OracleFail(topnFailKey("C09-topn-slice", rr), "result is not the [from, from+n) slice of the complete ranking",
						map[string]interface{}{"order": topnOrderString(order), "size": p.size, "skip": p.skip, "got": topnNumbersOf(res), "want": wantN,
							"hits": topnDescribeStub(docs), "panicked": panicked})
				}
			}
		}
		// negative arguments (run-time panics of the constructors / Final)
		if li%10 == 0 {
			for _, p := range []pt{{-1, 0}, {-3, 0}, {2, -1}, {-1, 4}, {topnSwitchPoint + 4, -2}} {
				res, _, panicked, _ := topnRunDirect(docs, mkOrder(), p.size, p.skip, nil, false, nil)
				dqs = append(dqs, fmt.Sprintf("DQ %s %s None false %s", cq.I(p.size), cq.I(p.skip), topnCoqObs(res, panicked)))
				qmeta = append(qmeta, fmt.Sprintf("size=%d skip=%d -> %v panicked=%v", p.size, p.skip, topnNumbersOf(res), panicked))
				w.Count("direct:negative-arguments", 1)
			}
		}
		// search-after / reverse with keys taken from hits, random keys, short keys
		full, _, _, _ := topnRunDirect(docs, mkOrder(), n+1, 0, nil, false, nil)
		posOf := map[uint64]int{}
		for i, x := range rr.order {
			posOf[numberOf(x)] = i
		}
		for q := 0; q < 7; q++ {
			var key [][]byte
			from := -1
			switch {
			case len(full) > 0 && q < 4:
				h := full[rng.Intn(len(full))]
				key = h.sortv
				from = posOf[h.number]
			case q == 4:
				key = make([][]byte, len(order))
				for x := range key {
					key[x] = []byte(topnKwAlphabet[rng.Intn(len(topnKwAlphabet))])
				}
			case q == 5 && len(order) > 1:
				key = [][]byte{[]byte(topnKwAlphabet[rng.Intn(len(topnKwAlphabet))])} // too short: panics when the first component ties
			default:
				key = make([][]byte, len(order)+1)
				for x := range key {
					key[x] = []byte(topnKwAlphabet[rng.Intn(len(topnKwAlphabet))])
				}
			}
			size := []int{0, 1, 2, 3, topnSwitchPoint, topnSwitchPoint + 1, n}[rng.Intn(7)]
			reverse := rng.Intn(4) == 0
			res, _, panicked, _ := topnRunDirect(docs, mkOrder(), size, 0, key, reverse, nil)
			dqs = append(dqs, fmt.Sprintf("DQ %s 0 (Some %s) %s %s", cq.I(size), topnCoqKey(key), cq.B(reverse), topnCoqObs(res, panicked)))
			qmeta = append(qmeta, fmt.Sprintf("size=%d after=%q reverse=%v -> %v panicked=%v", size, key, reverse, topnNumbersOf(res), panicked))
			w.Count("direct:after-queries", 1)
			if from >= 0 && rr.distinct && !multi && !reverse {
				w.OracleEval(1)
				want := topnSliceOf(rr.order, from+1, size)
				if panicked || !topnSameNumbers(res, want, numberOf) {
					w.OracleFail(topnFailKey("C09-after-page", rr), "search-after page is not the next n matches of the ranking",
						map[string]interface{}{"order": topnOrderString(order), "size": size, "after": fmt.Sprintf("%q", key), "got": topnNumbersOf(res),
							"hits": topnDescribeStub(docs)})
				}
			}
		}
		// chained search-after under a distinguishing order: every match once, in order
		if rr.distinct && !multi && n > 0 {
			for _, page := range []int{1, 2, 3, 7, topnSwitchPoint, topnSwitchPoint + 1} {
				var seen []uint64
				res, _, _, _ := topnRunDirect(docs, mkOrder(), page, 0, nil, false, nil)
				guard := 0
				for len(res) > 0 && guard < n+3 {
					seen = append(seen, topnNumbersOf(res)...)
					res, _, _, _ = topnRunDirect(docs, mkOrder(), page, 0, res[len(res)-1].sortv, false, nil)
					guard++
				}
				w.OracleEval(1)
				w.Count("direct:after-chains", 1)
				ok := len(seen) == n
				for i := 0; ok && i < n; i++ {
					ok = seen[i] == numberOf(rr.order[i])
				}
				if !ok {
					w.OracleFail(topnFailKey("C09-paging-covers", rr), "chained search-after does not visit every match once in order",
						map[string]interface{}{"order": topnOrderString(order), "page": page, "visited": seen, "hits": topnDescribeStub(docs)})
				}
			}
		}
		hs := make([]string, len(docs))
		for i, d := range docs {
			hs[i] = topnCoqRawHit(d.number, d.score, d.dv, d.tab)
		}
		meta["queries"] = qmeta
		w.Add(fmt.Sprintf("CTopN %s [] %s\n %s []", topnCoqOrder(order), cq.List(hs), cq.List(dqs)), "direct", n > 1 && len(order) > 0, meta)
	}

	// ---- (a') deep paging: more matches than collector.PreAllocSizeSkipCap and windows that reach past it
	nDeep := 2
	if o.Thorough() {
		nDeep = 8
	}
	for di := 0; di < nDeep; di++ {
		topnDeepDirect(rng, w, di)
	}
	if err := topnDeepEndToEnd(rng, w); err != nil {
		return err
	}

	// ---- (b) end to end: TopNSearch against AllMatches on in-memory indexes
	for ii := 0; ii < nIdx; ii++ {
		if err := topnEndToEnd(rng, w, ii); err != nil {
			return err
		}
	}
	topnSharedSortProbe(w)
	w.Close()
	return nil
}

// topnDeepWindows: (size, skip) pairs around a retention bound `cap` and the hit count
func topnDeepWindows(rng *rand.Rand, cap, cnt int) [][2]int {
	return [][2]int{{10, cap - 10}, {10, cap - 5}, {10, cap}, {10, cap + 7}, {cap + 1, 0}, {2 * cap, 0}, {cap, 1}, {1, cap},
		{0, cap + 1}, {5, cnt - 3}, {20, cnt}, {cnt, 0}, {3, cap - 1 - rng.Intn(20)}, {cap + 1 + rng.Intn(300), rng.Intn(5)}, {7, cap + 1 + rng.Intn(150)}}
}

// topnDeepDirect: 1100-1500 stub hits with heavy ties, the collector driven directly
func topnDeepDirect(rng *rand.Rand, w *cq.Writer, di int) {
	cap := collector.PreAllocSizeSkipCap
	n := cap + 100 + rng.Intn(400)
	ncols := 2
	docs := make([]*topnStubDoc, n)
	perm := rng.Perm(n)
	for i := range docs {
		d := &topnStubDoc{number: uint64(i + 1), score: topnScoreAlphabet[rng.Intn(len(topnScoreAlphabet))], dv: map[int][][]byte{},
			kw: map[int][]string{}, nums: map[int][]float64{}, dates: map[int][]int64{}, tab: make([][]byte, ncols)}
		if rng.Intn(8) != 0 {
			d.tab[0] = []byte(topnKwAlphabet[rng.Intn(len(topnKwAlphabet))])
		}
		d.tab[1] = []byte(fmt.Sprintf("u%04d", perm[i]))
		docs[i] = d
	}
	order := []topnSortComp{{kind: 2, col: 0, desc: rng.Intn(2) == 0, first: rng.Intn(2) == 0}}
	switch di % 3 {
	case 1:
		order = append(order, topnSortComp{kind: 0, desc: true})
	case 2:
		order = append(order, topnSortComp{kind: 2, col: 1, desc: rng.Intn(2) == 0})
	}
	docMap := map[uint64]*topnStubDoc{}
	for _, d := range docs {
		docMap[d.number] = d
	}
	mkOrder := func() search.SortOrder { return topnBuildOrder(order, docMap, topnFieldName) }
	keys, _ := topnStubRefKeys(order, docs)
	rr := topnRank(order, keys)
	numberOf := func(i int) uint64 { return docs[i].number }
	var dqs, qmeta []string
	for qi, p := range topnDeepWindows(rng, cap, n) {
		res, _, panicked, _ := topnRunDirect(docs, mkOrder(), p[0], p[1], nil, false, nil)
		w.Count("deep:direct-queries", 1)
		w.OracleEval(1)
		want := topnSliceOf(rr.order, p[1], p[0])
		if panicked || !topnSameNumbers(res, want, numberOf) {
			w.OracleFail("C09-topn-slice", "deep page is not the [from, from+n) slice of the complete ranking",
				map[string]interface{}{"order": topnOrderString(order), "hits": n, "size": p[0], "skip": p[1], "returned": len(res), "wanted": len(want),
					"first_returned": topnNumbersOf(res[:topnMinInt(len(res), 5)]), "panicked": panicked})
		}
		if di == 0 && qi < 2 { // two deep windows also go to the model
			dqs = append(dqs, fmt.Sprintf("DQ %s %s None false %s", cq.I(p[0]), cq.I(p[1]), topnCoqObs(res, panicked)))
			qmeta = append(qmeta, fmt.Sprintf("size=%d skip=%d -> %d hits", p[0], p[1], len(res)))
		}
	}
	// deep search-after chain with a large page under a distinguishing order
	if rr.distinct {
		var seen []uint64
		page := cap + 1
		res, _, _, _ := topnRunDirect(docs, mkOrder(), page, 0, nil, false, nil)
		for guard := 0; len(res) > 0 && guard < 4; guard++ {
			seen = append(seen, topnNumbersOf(res)...)
			res, _, _, _ = topnRunDirect(docs, mkOrder(), page, 0, res[len(res)-1].sortv, false, nil)
		}
		w.OracleEval(1)
		ok := len(seen) == n
		for i := 0; ok && i < n; i++ {
			ok = seen[i] == numberOf(rr.order[i])
		}
		if !ok {
			w.OracleFail("C09-paging-covers", "chained search-after with a page larger than the preallocation cap does not visit every match once in order",
				map[string]interface{}{"order": topnOrderString(order), "hits": n, "page": page, "visited": len(seen)})
		}
	}
	w.Count("deep:direct-hits", n)
	if di == 0 {
		hs := make([]string, len(docs))
		for i, d := range docs {
			hs[i] = topnCoqRawHit(d.number, d.score, d.dv, d.tab)
		}
		w.Add(fmt.Sprintf("CTopN %s [] %s\n %s []", topnCoqOrder(order), cq.List(hs), cq.List(dqs)), "deep", true,
			map[string]interface{}{"hits": n, "order": topnOrderString(order), "queries": qmeta})
	}
}

func topnMinInt(a, b int) int {
	if a < b {
		return a
	}
	return b
}

// topnDeepEndToEnd: an index with more documents than the cap, TopNSearch windows past it
func topnDeepEndToEnd(rng *rand.Rand, w *cq.Writer) error {
	cap := collector.PreAllocSizeSkipCap
	nd := cap + 50 + rng.Intn(150)
	wr, err := bluge.OpenWriter(bluge.InMemoryOnlyConfig())
	if err != nil {
		return err
	}
	defer wr.Close()
	kws := make([]string, nd)
	batch := bluge.NewBatch()
	for i := 0; i < nd; i++ {
		kws[i] = topnKwAlphabet[rng.Intn(len(topnKwAlphabet))]
		bd := bluge.NewDocument(fmt.Sprintf("d%05d", i))
		bd.AddField(bluge.NewKeywordField("f0", kws[i]).Sortable())
		batch.Insert(bd)
		if i%400 == 399 {
			if err := wr.Batch(batch); err != nil {
				return err
			}
			batch = bluge.NewBatch()
		}
	}
	if err := wr.Batch(batch); err != nil {
		return err
	}
	rd, err := wr.Reader()
	if err != nil {
		return err
	}
	defer rd.Close()
	desc := rng.Intn(2) == 0
	order := []topnSortComp{{kind: 1, field: 0, desc: desc}}
	// the complete match list in searcher order
	it, err := rd.Search(context.Background(), bluge.NewAllMatches(bluge.NewMatchAllQuery()))
	if err != nil {
		return err
	}
	var numbers []uint64
	var keys [][]topnRefKey
	for {
		m, err := it.Next()
		if err != nil {
			return err
		}
		if m == nil {
			break
		}
		var id string
		_ = m.VisitStoredFields(func(f string, v []byte) bool {
			if f == "_id" {
				id = string(v)
			}
			return true
		})
		var idx int
		fmt.Sscanf(id, "d%05d", &idx)
		numbers = append(numbers, m.Number)
		keys = append(keys, []topnRefKey{{true, []byte(kws[idx])}})
	}
	rr := topnRank(order, keys)
	numberOf := func(i int) uint64 { return numbers[i] }
	for _, p := range topnDeepWindows(rng, cap, len(numbers)) {
		req := bluge.NewTopNSearch(p[0], bluge.NewMatchAllQuery()).SortByCustom(topnBuildOrder(order, nil, topnFieldName)).SetFrom(p[1])
		it, err := rd.Search(context.Background(), req)
		if err != nil {
			return err
		}
		res, err := topnDrain(it)
		if err != nil {
			return err
		}
		w.Count("deep:e2e-queries", 1)
		w.OracleEval(1)
		want := topnSliceOf(rr.order, p[1], p[0])
		if !topnSameNumbers(res, want, numberOf) {
			w.OracleFail("C09-topn-slice", "deep TopNSearch page is not the [from, from+n) slice of the ranking of AllMatches",
				map[string]interface{}{"order": topnOrderString(order), "docs": nd, "n": p[0], "from": p[1], "returned": len(res), "wanted": len(want)})
		}
	}
	return nil
}

func topnDescribeStub(docs []*topnStubDoc) []string {
	out := make([]string, len(docs))
	for i, d := range docs {
		out[i] = fmt.Sprintf("#%d score=%v kw=%s nums=%v dates=%v tab=%q", d.number, d.score, topnKwString(d.kw), d.nums, d.dates, d.tab)
	}
	return out
}

func topnKwString(m map[int][]string) string {
	ids := make([]int, 0, len(m))
	for id := range m {
		ids = append(ids, id)
	}
	sort.Ints(ids)
	var sb strings.Builder
	for _, id := range ids {
		fmt.Fprintf(&sb, "f%d:%q ", id, m[id])
	}
	return "{" + strings.TrimSpace(sb.String()) + "}"
}

// ---------------------------------------------------------------- end to end

// index fields: f0 keyword, f1 numeric, f2 date, f4 unique keyword; "t" text for queries
type topnE2eDoc struct {
	id    string
	kw    *string
	num   []float64
	date  *int64
	uniq  string
	words []string
}

// recording aggregation: notes the doc values the collector sees for each hit
type topnRecAgg struct {
	fields []string
	seen   *[]map[string][][]byte
}

func (r *topnRecAgg) Fields() []string              { return r.fields }
func (r *topnRecAgg) Calculator() search.Calculator { return &topnRecCalc{r} }

type topnRecCalc struct{ r *topnRecAgg }

func (c *topnRecCalc) Consume(d *search.DocumentMatch) {
	m := map[string][][]byte{}
	for _, f := range c.r.fields {
		for _, v := range d.DocValues(f) {
			m[f] = append(m[f], append([]byte{}, v...))
		}
	}
	*c.r.seen = append(*c.r.seen, m)
}
func (c *topnRecCalc) Finish()                 {}
func (c *topnRecCalc) Merge(search.Calculator) {}

func topnEndToEnd(rng *rand.Rand, w *cq.Writer, ii int) error {
	nd := rng.Intn(26)
	if ii%5 == 0 {
		nd = 9 + rng.Intn(5)
	}
	cfg := bluge.InMemoryOnlyConfig()
	wr, err := bluge.OpenWriter(cfg)
	if err != nil {
		return err
	}
	defer wr.Close()
	emptyKw := ii%3 == 1 // some indexes contain the empty keyword (a present key below the low sentinel)
	docs := map[string]*topnE2eDoc{}
	perm := rng.Perm(nd)
	vocab := []string{"red", "green", "blue"}
	batch := bluge.NewBatch()
	for i := 0; i < nd; i++ {
		d := &topnE2eDoc{id: fmt.Sprintf("d%02d", i), uniq: fmt.Sprintf("u%03d", perm[i])}
		if rng.Intn(5) != 0 {
			v := topnKwAlphabet[rng.Intn(len(topnKwAlphabet))]
			if emptyKw && rng.Intn(4) == 0 {
				v = ""
			}
			d.kw = &v
		}
		if rng.Intn(5) != 0 {
			d.num = []float64{topnNumAlphabet[rng.Intn(len(topnNumAlphabet))]}
		}
		if rng.Intn(5) != 0 {
			v := topnDateAlphabet[rng.Intn(len(topnDateAlphabet))]
			d.date = &v
		}
		for k := 1 + rng.Intn(4); k > 0; k-- {
			d.words = append(d.words, vocab[rng.Intn(len(vocab))])
		}
		docs[d.id] = d
		bd := bluge.NewDocument(d.id)
		if d.kw != nil {
			bd.AddField(bluge.NewKeywordField("f0", *d.kw).Sortable())
		}
		for _, v := range d.num {
			bd.AddField(bluge.NewNumericField("f1", v).Sortable())
		}
		if d.date != nil {
			bd.AddField(bluge.NewDateTimeField("f2", time.Unix(0, *d.date).UTC()).Sortable())
		}
		bd.AddField(bluge.NewKeywordField("f4", d.uniq).Sortable())
		bd.AddField(bluge.NewTextField("t", strings.Join(d.words, " ")))
		batch.Insert(bd)
		if rng.Intn(7) == 0 { // several segments
			if err := wr.Batch(batch); err != nil {
				return err
			}
			batch = bluge.NewBatch()
		}
	}
	if err := wr.Batch(batch); err != nil {
		return err
	}
	rd, err := wr.Reader()
	if err != nil {
		return err
	}
	defer rd.Close()

	mkQuery := func(k int) bluge.Query {
		switch k {
		case 0:
			return bluge.NewMatchAllQuery()
		case 1:
			return bluge.NewMatchQuery("red green").SetField("t")
		default:
			return bluge.NewTermQuery("blue").SetField("t")
		}
	}
	for qk := 0; qk < 3; qk++ {
		// sort order over the index fields
		k := 1 + rng.Intn(3)
		var order []topnSortComp
		for i := 0; i < k; i++ {
			c := topnSortComp{desc: rng.Intn(2) == 0, first: rng.Intn(2) == 0}
			switch rng.Intn(5) {
			case 0:
				c.kind = 0
			default:
				c.kind = 1
				c.field = rng.Intn(3)
			}
			order = append(order, c)
		}
		if rng.Intn(2) == 0 {
			order = append(order, topnSortComp{kind: 1, field: 4, desc: rng.Intn(2) == 0})
		}
		mkOrder := func() search.SortOrder { return topnBuildOrder(order, nil, topnFieldName) }
		var fields []string
		for _, c := range order {
			if c.kind == 1 {
				fields = append(fields, topnFieldName(c.field))
			}
		}
		// the complete match list, in searcher order, with scores and the doc values of the sort fields
		var seen []map[string][][]byte
		all := bluge.NewAllMatches(mkQuery(qk))
		all.AddAggregation("rec", &topnRecAgg{fields: fields, seen: &seen})
		it, err := rd.Search(context.Background(), all)
		if err != nil {
			return err
		}
		type match struct {
			number uint64
			score  float64
			doc    *topnE2eDoc
		}
		var matches []match
		for {
			m, err := it.Next()
			if err != nil {
				return err
			}
			if m == nil {
				break
			}
			var id string
			_ = m.VisitStoredFields(func(f string, v []byte) bool {
				if f == "_id" {
					id = string(v)
				}
				return true
			})
			matches = append(matches, match{m.Number, m.Score, docs[id]})
		}
		if len(seen) != len(matches) {
			return fmt.Errorf("recording aggregation saw %d hits, iterator returned %d", len(seen), len(matches))
		}
		n := len(matches)
		keys := make([][]topnRefKey, n)
		for i, m := range matches {
			keys[i] = make([]topnRefKey, len(order))
			for x, c := range order {
				switch {
				case c.kind == 0:
					keys[i][x] = topnRefKey{true, numeric.MustNewPrefixCodedInt64(numeric.Float64ToInt64(m.score), 0)}
				case c.field == 0 && m.doc.kw != nil:
					keys[i][x] = topnRefKey{true, []byte(*m.doc.kw)}
				case c.field == 1 && len(m.doc.num) > 0:
					keys[i][x] = topnRefKey{true, numeric.MustNewPrefixCodedInt64(numeric.Float64ToInt64(m.doc.num[0]), 0)}
				case c.field == 2 && m.doc.date != nil:
					keys[i][x] = topnRefKey{true, numeric.MustNewPrefixCodedInt64(*m.doc.date, 0)}
				case c.field == 4:
					keys[i][x] = topnRefKey{true, []byte(m.doc.uniq)}
				}
			}
		}
		rr := topnRank(order, keys)
		numberOf := func(i int) uint64 { return matches[i].number }
		describe := func() []string {
			out := make([]string, n)
			for i, m := range matches {
				kw := "<missing>"
				if m.doc.kw != nil {
					kw = fmt.Sprintf("%q", *m.doc.kw)
				}
				out[i] = fmt.Sprintf("#%d %s score=%v f0=%s f1=%v f2=%v f4=%s", m.number, m.doc.id, m.score, kw, m.doc.num, m.doc.date, m.doc.uniq)
			}
			return out
		}
		search1 := func(size int, from int, after, before [][]byte, so search.SortOrder) (res []topnHitObs, panicked bool) {
			defer func() {
				if r := recover(); r != nil {
					res, panicked = nil, true
				}
			}()
			req := bluge.NewTopNSearch(size, mkQuery(qk)).SortByCustom(so)
			switch {
			case after != nil:
				req.After(after)
			case before != nil:
				req.Before(before)
			default:
				req.SetFrom(from)
			}
			it, err := rd.Search(context.Background(), req)
			if err != nil {
				panic(err)
			}
			res, err = topnDrain(it)
			if err != nil {
				panic(err)
			}
			return res, false
		}
		var rqs, qmeta []string
		sizes, skips := topnGridValues(rng, n, topnSwitchPoint)
		for _, s := range sizes {
			for _, k := range skips {
				if rng.Intn(3) != 0 && !(k == 0 && (s == topnSwitchPoint || s == topnSwitchPoint+1)) {
					continue
				}
				res, panicked := search1(s, k, nil, nil, mkOrder())
				rqs = append(rqs, fmt.Sprintf("RQ %s (PFrom %s) %s", cq.I(s), cq.I(k), topnCoqObs(res, panicked)))
				qmeta = append(qmeta, fmt.Sprintf("n=%d from=%d -> %v", s, k, topnNumbersOf(res)))
				w.Count("e2e:queries", 1)
				w.OracleEval(1)
				want := topnSliceOf(rr.order, k, s)
				if panicked || !topnSameNumbers(res, want, numberOf) {
					wantN := make([]uint64, len(want))
					for i, x := range want {
						wantN[i] = numberOf(x)
					}
					w.OracleFail(topnFailKey("C09-topn-slice", rr), "TopNSearch result is not the [from, from+n) slice of the ranking of AllMatches",
						map[string]interface{}{"order": topnOrderString(order), "n": s, "from": k, "got": topnNumbersOf(res), "want": wantN, "matches": describe()})
				}
			}
		}
		full, _ := search1(n+1, 0, nil, nil, mkOrder())
		posOf := map[uint64]int{}
		for i, x := range rr.order {
			posOf[numberOf(x)] = i
		}
		for q := 0; q < 6 && len(full) > 0; q++ {
			h := full[rng.Intn(len(full))]
			size := []int{0, 1, 2, 3, topnSwitchPoint + 1, n}[rng.Intn(6)]
			before := q%2 == 1
			var res []topnHitObs
			var panicked bool
			if before {
				res, panicked = search1(size, 0, nil, h.sortv, mkOrder())
				rqs = append(rqs, fmt.Sprintf("RQ %s (PBefore %s) %s", cq.I(size), topnCoqKey(h.sortv), topnCoqObs(res, panicked)))
			} else {
				res, panicked = search1(size, 0, h.sortv, nil, mkOrder())
				rqs = append(rqs, fmt.Sprintf("RQ %s (PAfter %s) %s", cq.I(size), topnCoqKey(h.sortv), topnCoqObs(res, panicked)))
			}
			qmeta = append(qmeta, fmt.Sprintf("n=%d before=%v key=%q -> %v", size, before, h.sortv, topnNumbersOf(res)))
			w.Count("e2e:after-before-queries", 1)
			if rr.distinct {
				w.OracleEval(1)
				p := posOf[h.number]
				want := topnSliceOf(rr.order, p+1, size)
				if before {
					lo := p - size
					if lo < 0 {
						lo = 0
					}
					want = rr.order[lo:p]
				}
				if panicked || !topnSameNumbers(res, want, numberOf) {
					w.OracleFail(topnFailKey("C09-after-before-page", rr), "After/Before page is not the adjacent n matches of the ranking, in ranking order",
						map[string]interface{}{"order": topnOrderString(order), "n": size, "before": before, "key": fmt.Sprintf("%q", h.sortv),
							"got": topnNumbersOf(res), "matches": describe()})
				}
			}
		}
		if rr.distinct && n > 0 {
			for _, page := range []int{1, 2, 3, topnSwitchPoint + 1} {
				// forward chain
				var seenN []uint64
				res, _ := search1(page, 0, nil, nil, mkOrder())
				for guard := 0; len(res) > 0 && guard < n+3; guard++ {
					seenN = append(seenN, topnNumbersOf(res)...)
					res, _ = search1(page, 0, res[len(res)-1].sortv, nil, mkOrder())
				}
				w.OracleEval(1)
				w.Count("e2e:chains", 1)
				ok := len(seenN) == n
				for i := 0; ok && i < n; i++ {
					ok = seenN[i] == numberOf(rr.order[i])
				}
				if !ok {
					w.OracleFail(topnFailKey("C09-paging-covers", rr), "chained After does not visit every match once in order",
						map[string]interface{}{"order": topnOrderString(order), "page": page, "visited": seenN, "matches": describe()})
				}
				// backward chain from the last match
				last := full[len(full)-1]
				back := []uint64{last.number}
				res, _ = search1(page, 0, nil, last.sortv, mkOrder())
				for guard := 0; len(res) > 0 && guard < n+3; guard++ {
					back = append(topnNumbersOf(res), back...)
					res, _ = search1(page, 0, nil, res[0].sortv, mkOrder())
				}
				w.OracleEval(1)
				w.Count("e2e:chains", 1)
				ok = len(back) == n
				for i := 0; ok && i < n; i++ {
					ok = back[i] == numberOf(rr.order[i])
				}
				if !ok {
					w.OracleFail(topnFailKey("C09-paging-covers", rr), "chained Before does not visit every match once in order",
						map[string]interface{}{"order": topnOrderString(order), "page": page, "visited": back, "matches": describe()})
				}
			}
		}
		hs := make([]string, n)
		for i, m := range matches {
			dv := map[int][][]byte{}
			for f, vs := range seen[i] {
				dv[topnFieldID(f)] = vs
			}
			hs[i] = topnCoqRawHit(m.number, m.score, dv, nil)
		}
		w.Add(fmt.Sprintf("CTopN %s [] %s\n [] %s", topnCoqOrder(order), cq.List(hs), cq.List(rqs)), "e2e", n > 1,
			map[string]interface{}{"index": ii, "docs": nd, "query": qk, "matches": n, "order": topnOrderString(order), "queries": qmeta, "distinct": rr.distinct})
		w.Count("e2e:matches", n)
	}
	return nil
}

// topnSharedSortProbe: one search.SortOrder value shared by successive Before requests (the
// request documents that it preserves the caller's order).
func topnSharedSortProbe(w *cq.Writer) {
	cfg := bluge.InMemoryOnlyConfig()
	wr, err := bluge.OpenWriter(cfg)
	if err != nil {
		return
	}
	defer wr.Close()
	b := bluge.NewBatch()
	for i := 0; i < 6; i++ {
		d := bluge.NewDocument(fmt.Sprint(i))
		d.AddField(bluge.NewNumericField("price", float64(i)).Sortable())
		b.Insert(d)
	}
	if wr.Batch(b) != nil {
		return
	}
	rd, err := wr.Reader()
	if err != nil {
		return
	}
	defer rd.Close()
	so := search.SortOrder{search.SortBy(search.Field("price"))}
	key := [][]byte{numeric.MustNewPrefixCodedInt64(numeric.Float64ToInt64(4), 0)}
	var runs [][]uint64
	for k := 0; k < 3; k++ {
		req := bluge.NewTopNSearch(2, bluge.NewMatchAllQuery()).SortByCustom(so).Before(key)
		it, err := rd.Search(context.Background(), req)
		if err != nil {
			return
		}
		res, _ := topnDrain(it)
		runs = append(runs, topnNumbersOf(res))
	}
	w.OracleEval(1)
	for k := 1; k < len(runs); k++ {
		if fmt.Sprint(runs[k]) != fmt.Sprint(runs[0]) {
			w.OracleFail("C09-before-mutates-shared-sort", "the same Before request with a shared SortOrder returns different pages on repetition",
				map[string]interface{}{"sort": "price asc", "before": "4", "n": 2, "runs": runs})
			return
		}
	}
}
