package engines

// proto.go — engines `proto-c02`, `proto-c03`, `proto-c11`, `proto-c14`: complete runs of a real writer
// over the simulated directory, with crash probes (every probe reopens the crash image with the real
// OpenWriter and OpenReader), multi-round crash/recover/continue sequences, retention / removal /
// handle / lock accounting, and fault injection.  Each run is emitted as a Coq case for the monitor
// and recovery model of Index/Proto.v; the property predicates are evaluated directly in Go.

import (
	"bytes"
	"fmt"
	"math/rand"
	"os"
	"sort"
	"strconv"
	"strings"
	"sync"
	"time"

	"github.com/RoaringBitmap/roaring"
	"github.com/blugelabs/bluge"
	"github.com/blugelabs/bluge/index"

	"verif/harness/cq"
	"verif/harness/sim"
)

func init() {
	for _, m := range []string{"c02", "c03", "c11", "c14"} {
		m := m
		Registry["proto-"+m] = func(o Opts) error { return runProto(o, m) }
	}
}

// ---- parsed snapshot files ----

type snpSeg struct {
	ID  uint64
	Del []uint32
	Raw []byte // roaring serialisation of the deleted set (nil when none)
}

func parseSnapshotFile(b []byte) ([]snpSeg, error) {
	if len(b) < index.VerifCrcWidth {
		return nil, fmt.Errorf("short")
	}
	var sn index.Snapshot
	if _, err := sn.ReadFrom(bytes.NewReader(b[:len(b)-index.VerifCrcWidth])); err != nil {
		return nil, err
	}
	var out []snpSeg
	for _, s := range index.VerifCodecSnapshotSegs(&sn) {
		ps := snpSeg{ID: s.ID}
		if s.Deleted != nil {
			ps.Del = s.Deleted.ToArray()
			raw, err := s.Deleted.ToBytes()
			if err != nil {
				return nil, err
			}
			ps.Raw = raw
		}
		out = append(out, ps)
	}
	return out, nil
}

func coqSnpSegs(segs []snpSeg) string {
	it := make([]string, len(segs))
	for i, s := range segs {
		it[i] = cq.Pair(strconv.FormatUint(s.ID, 10), coqU32s(s.Del))
	}
	return cq.List(it)
}

// ---- the Go mirror of the model's disk ----

type flyFile struct {
	snp   bool
	id    uint64
	bytes []byte
	segs  []snpSeg
}

type mdisk struct {
	snp     map[uint64][]byte
	snpSegs map[uint64][]snpSeg
	seg     map[uint64][]byte
	fly     []flyFile // newest first
	junkSnp map[uint64][]byte
	junkSeg map[uint64][]byte
}

func newMdisk() *mdisk {
	return &mdisk{snp: map[uint64][]byte{}, snpSegs: map[uint64][]snpSeg{}, seg: map[uint64][]byte{}, junkSnp: map[uint64][]byte{}, junkSeg: map[uint64][]byte{}}
}

func (d *mdisk) clone() *mdisk {
	c := newMdisk()
	for k, v := range d.snp {
		c.snp[k] = v
	}
	for k, v := range d.snpSegs {
		c.snpSegs[k] = v
	}
	for k, v := range d.seg {
		c.seg[k] = v
	}
	for k, v := range d.junkSnp {
		c.junkSnp[k] = v
	}
	for k, v := range d.junkSeg {
		c.junkSeg[k] = v
	}
	c.fly = append([]flyFile{}, d.fly...)
	return c
}

func (d *mdisk) dropFly(snp bool, id uint64) *flyFile {
	for i, f := range d.fly {
		if f.snp == snp && f.id == id {
			d.fly = append(append([]flyFile{}, d.fly[:i]...), d.fly[i+1:]...)
			return &f
		}
	}
	return nil
}

type tornChoice struct {
	Kind string // absent | prefix | zeros | full
	Len  int
}

func (t tornChoice) coq() string {
	switch t.Kind {
	case "absent":
		return "TAbsent"
	case "prefix":
		return fmt.Sprintf("(TPrefix %d)", t.Len)
	case "zeros":
		return "TZeros"
	}
	return "TFull"
}

func (t tornChoice) apply(b []byte) ([]byte, bool) {
	switch t.Kind {
	case "absent":
		return nil, false
	case "prefix":
		n := t.Len
		if n > len(b) {
			n = len(b)
		}
		return append([]byte{}, b[:n]...), true
	case "zeros":
		return make([]byte, len(b)), true
	}
	return append([]byte{}, b...), true
}

// image returns the files a crash leaves, and the classification of the files for the next round.
func (d *mdisk) image(choice []tornChoice) (files map[string][]byte, next *mdisk) {
	files = map[string][]byte{}
	next = newMdisk()
	key := func(snp bool, id uint64) string {
		if snp {
			return fmt.Sprintf(".snp/%016x", id)
		}
		return fmt.Sprintf(".seg/%016x", id)
	}
	for id, b := range d.snp {
		files[key(true, id)] = b
		next.snp[id] = b
		next.snpSegs[id] = d.snpSegs[id]
	}
	for id, b := range d.seg {
		files[key(false, id)] = b
		next.seg[id] = b
	}
	for id, b := range d.junkSnp {
		files[key(true, id)] = b
		next.junkSnp[id] = b
	}
	for id, b := range d.junkSeg {
		files[key(false, id)] = b
		next.junkSeg[id] = b
	}
	for i, f := range d.fly {
		if i >= len(choice) {
			break
		}
		b, ok := choice[i].apply(f.bytes)
		if !ok {
			continue
		}
		files[key(f.snp, f.id)] = b
		full := choice[i].Kind == "full"
		switch {
		case f.snp && full:
			next.snp[f.id] = b
			next.snpSegs[f.id] = f.segs
			delete(next.junkSnp, f.id)
		case f.snp:
			next.junkSnp[f.id] = b
		case full:
			next.seg[f.id] = b
		default:
			next.junkSeg[f.id] = b
		}
	}
	return files, next
}

// ---- conversion of the log into pevents, mirroring the disk ----

type pconv struct {
	w             *World
	events        []string // Coq pevents
	diskAt        []*mdisk // diskAt[i] = disk after i events
	ackedAt       [][]int  // keys acknowledged (ok) after i events
	introAt       []int    // number of batches introduced after i events
	order         []int    // introduction order (keys)
	table         map[string][]byte
	segdocs       map[uint64][]DV
	commits       int
	commitsAt     []int
	rootSegsAt    [][]uint64 // persisted segment ids of the current root after i events
	grabSegsAt    [][]uint64
	stats         TraceStats
	removedNeeded []string
	probeTerms    []string
	dirOracle     []string
}

func (c *pconv) push(ev string, d *mdisk, acked []int, rootSegs, grabSegs []uint64) {
	c.events = append(c.events, ev)
	c.diskAt = append(c.diskAt, d)
	c.ackedAt = append(c.ackedAt, acked)
	c.introAt = append(c.introAt, len(c.order))
	c.commitsAt = append(c.commitsAt, c.commits)
	c.rootSegsAt = append(c.rootSegsAt, rootSegs)
	c.grabSegsAt = append(c.grabSegsAt, grabSegs)
}

func (w *World) convertProto(start *mdisk, segdocs map[uint64][]DV) *pconv {
	c := &pconv{w: w, table: map[string][]byte{}, segdocs: segdocs}
	// an empty (non-nil) deleted bitmap is written as an empty roaring serialisation and read back as nil
	if raw, err := roaring.New().ToBytes(); err == nil {
		c.table[string(raw)] = raw
	}
	d := start.clone()
	var acked []int
	var rootSegs, grabSegs []uint64
	c.diskAt = append(c.diskAt, d.clone())
	c.ackedAt = append(c.ackedAt, nil)
	c.introAt = append(c.introAt, 0)
	c.commitsAt = append(c.commitsAt, 0)
	c.rootSegsAt = append(c.rootSegsAt, nil)
	c.grabSegsAt = append(c.grabSegsAt, nil)
	for _, segs := range start.snpSegs {
		for _, s := range segs {
			if s.Raw != nil {
				c.table[string(s.Raw)] = s.Raw
			}
		}
	}
	evs := w.Rec.Snapshot()
	universe := w.universeIDs()
	obsByEpoch := map[uint64][]Observation{}
	for _, o := range w.Observed {
		if o.Err == "" {
			obsByEpoch[o.Epoch] = append(obsByEpoch[o.Epoch], o)
		}
	}
	emit := func(s string) { c.push(s, d.clone(), append([]int{}, acked...), rootSegs, grabSegs) }
	flushObs := func(epoch uint64) {
		for _, o := range obsByEpoch[epoch] {
			emit("PI (EObserve " + coqObservation(o, universe) + ")")
		}
		delete(obsByEpoch, epoch)
	}
	learn := func(segs []index.VerifSeg) {
		for _, s := range segs {
			if _, ok := c.segdocs[s.ID]; !ok && !s.Nil {
				c.segdocs[s.ID] = segDocs(s)
			}
		}
	}
	persistedIDs := func(segs []index.VerifSeg) []uint64 {
		var out []uint64
		for _, s := range segs {
			if s.Persisted {
				out = append(out, s.ID)
			}
		}
		return out
	}
	var prevRoot *index.VerifEvent
	var pendingIntro *sim.Event
	var pendingMerge *index.VerifEvent
	lastLoad := -1
	for i, e := range evs {
		if e.Kind == "root" && e.V.Creator == "loadSnapshot" {
			lastLoad = i
		}
	}
	safeMode := !w.O.Unsafe
	for i, e := range evs {
		switch e.Kind {
		case "batch-call":
			emit(fmt.Sprintf("PI (ECall %d)", e.Batch))
		case "batch-ret":
			emit(fmt.Sprintf("PI (ERet %d %s)", e.Batch, cq.B(e.Err == "")))
			if safeMode {
				if e.Err == "" {
					acked = append(acked, e.Batch)
				}
				emit(fmt.Sprintf("PAck %d %s", e.Batch, cq.B(e.Err == "")))
			}
		case "callback":
			if !safeMode {
				if e.Err == "" {
					acked = append(acked, e.Batch)
				}
				emit(fmt.Sprintf("PAck %d %s", e.Batch, cq.B(e.Err == "")))
			}
		case "intro-segment":
			pendingIntro = e
		case "intro-merge":
			pendingMerge = e.V
		case "grab":
			grabSegs = persistedIDs(e.V.Segs)
			emit(fmt.Sprintf("PGrab %d %d", e.V.Epoch, e.V.NumAcks))
		case "persisted":
			grabSegs = nil
		case "root":
			v := e.V
			learn(v.Segs)
			switch v.Creator {
			case "nil":
				rootSegs = nil
			case "loadSnapshot":
				if i == lastLoad {
					rootSegs = persistedIDs(v.Segs)
					emit("PI (ELoad " + coqSnap(v.Epoch, v.Segs) + ")")
					prevRoot = v
					flushObs(v.Epoch)
				}
			case "introduceSegment":
				if pendingIntro == nil {
					emit("PI (ELoad " + coqSnap(v.Epoch, v.Segs) + ")")
					break
				}
				iv := pendingIntro.V
				spec, ok := w.Specs[pendingIntro.Batch]
				if !ok {
					spec = BatchSpec{Key: -1}
					for _, dd := range iv.NewDocs {
						dv := parseDoc(dd)
						spec.Ops = append(spec.Ops, DocOp{Kind: "ins", ID: dv.ID, V: dv.V})
					}
					for _, t := range iv.IDTerms {
						spec.Ops = append(spec.Ops, DocOp{Kind: "del", ID: parseID(t)})
					}
				}
				var obs []string
				ids := make([]uint64, 0, len(iv.Obsoletes))
				for id := range iv.Obsoletes {
					ids = append(ids, id)
				}
				sort.Slice(ids, func(a, b int) bool { return ids[a] < ids[b] })
				for _, id := range ids {
					obs = append(obs, cq.Pair(strconv.FormatUint(id, 10), coqU32s(iv.Obsoletes[id])))
				}
				c.order = append(c.order, pendingIntro.Batch)
				rootSegs = persistedIDs(v.Segs)
				emit(fmt.Sprintf("PI (EIntro %d %s %s %d %s)", pendingIntro.Batch, coqBatch(spec), cq.List(obs), iv.IntroID, coqSnap(v.Epoch, v.Segs)))
				if safeMode {
					emit(fmt.Sprintf("PSafe %d", pendingIntro.Batch))
				}
				c.stats.Intros++
				pendingIntro = nil
				prevRoot = v
				flushObs(v.Epoch)
			case "introducePersist":
				var ids []string
				if prevRoot != nil {
					was := map[uint64]bool{}
					for _, s := range prevRoot.Segs {
						was[s.ID] = s.Persisted
					}
					for _, s := range v.Segs {
						if s.Persisted && !was[s.ID] {
							ids = append(ids, strconv.FormatUint(s.ID, 10))
						}
					}
				}
				rootSegs = persistedIDs(v.Segs)
				emit(fmt.Sprintf("PI (EPersistSwap %s %s)", cq.List(ids), coqSnap(v.Epoch, v.Segs)))
				c.stats.Swaps++
				prevRoot = v
				flushObs(v.Epoch)
			case "introduceMerge":
				m := pendingMerge
				if m == nil {
					emit("PI (ELoad " + coqSnap(v.Epoch, v.Segs) + ")")
					break
				}
				learn(m.Old)
				if m.New != nil {
					learn([]index.VerifSeg{*m.New})
				}
				rootSegs = persistedIDs(v.Segs)
				emit("PI (" + coqMergeEvent(m, v) + ")")
				c.stats.Merges++
				oldInMem := len(m.Old) > 0
				for _, o := range m.Old {
					if o.Persisted {
						oldInMem = false
					}
				}
				if oldInMem {
					c.stats.MemMerges++
					in := false
					for _, sg := range v.Segs {
						if sg.ID == m.MergeID {
							in = true
						}
					}
					if !in {
						c.stats.MergesSkipped++
					}
				}
				pendingMerge = nil
				prevRoot = v
				flushObs(v.Epoch)
			}
		case "persist-start":
			f := flyFile{snp: e.Item == ".snp", id: e.ID, bytes: e.Bytes}
			segsS := "[]"
			if f.snp {
				segs, err := parseSnapshotFile(e.Bytes)
				if err == nil {
					f.segs = segs
					segsS = coqSnpSegs(segs)
					for _, s := range segs {
						if s.Raw != nil {
							c.table[string(s.Raw)] = s.Raw
						}
					}
				}
				delete(d.junkSnp, e.ID)
			} else {
				delete(d.seg, e.ID) // a rewrite: the old content is gone from here on
			}
			d.fly = append([]flyFile{f}, d.fly...)
			bs := "[]"
			if f.snp {
				bs = cq.Bytes(e.Bytes)
			}
			emit(fmt.Sprintf("PPersistStart %s %d %s %s", cq.B(f.snp), e.ID, bs, segsS))
		case "persist-ok":
			snp := e.Item == ".snp"
			if f := d.dropFly(snp, e.ID); f != nil {
				if snp {
					d.snp[e.ID] = f.bytes
					d.snpSegs[e.ID] = f.segs
					c.commits++
				} else {
					d.seg[e.ID] = f.bytes
				}
			}
			emit(fmt.Sprintf("PPersistOk %s %d", cq.B(snp), e.ID))
		case "persist-err":
			snp := e.Item == ".snp"
			d.dropFly(snp, e.ID)
			emit(fmt.Sprintf("PPersistErr %s %d", cq.B(snp), e.ID))
		case "remove-ok":
			snp := e.Item == ".snp"
			if snp {
				delete(d.snp, e.ID)
				delete(d.snpSegs, e.ID)
			} else {
				// C11 oracle: the segment must not be needed by a snapshot file on disk, the root or the persister
				for ep, segs := range d.snpSegs {
					for _, s := range segs {
						if s.ID == e.ID {
							c.removedNeeded = append(c.removedNeeded, fmt.Sprintf("segment %d removed while snapshot file %d on disk names it", e.ID, ep))
						}
					}
				}
				for _, id := range rootSegs {
					if id == e.ID {
						c.removedNeeded = append(c.removedNeeded, fmt.Sprintf("segment %d removed while the writer's root uses it", e.ID))
					}
				}
				for _, id := range grabSegs {
					if id == e.ID {
						c.removedNeeded = append(c.removedNeeded, fmt.Sprintf("segment %d removed while the snapshot being persisted uses it", e.ID))
					}
				}
				delete(d.seg, e.ID)
			}
			emit(fmt.Sprintf("PRemoveOk %s %d", cq.B(snp), e.ID))
		case "oracle":
			c.dirOracle = append(c.dirOracle, fmt.Sprintf("%s %s %d", e.Note, e.Item, e.ID))
		case "load-err", "list-err":
			emit("PFault")
		case "writer-close-start":
			// from here on a pending safe batch may be answered with the "closed" error: the monitor's
			// only notion of "an error may be reported now" is the fault flag
			emit("PFault")
		case "remove-err":
			emit(fmt.Sprintf("PRemoveErr %s %d", cq.B(e.Item == ".snp"), e.ID))
		}
	}
	return c
}

func coqMergeEvent(m *index.VerifEvent, v *index.VerifEvent) string {
	old := append([]index.VerifSeg{}, m.Old...)
	first := func(s index.VerifSeg) uint64 {
		for _, n := range m.OldNew[s.ID] {
			if n != 9223372036854775807 {
				return n
			}
		}
		return 1 << 62
	}
	sort.SliceStable(old, func(a, b int) bool {
		fa, fb := first(old[a]), first(old[b])
		if fa != fb {
			return fa < fb
		}
		return old[a].ID < old[b].ID
	})
	var oldS, tblS, docsS []string
	for _, s := range old {
		if s.Nil {
			oldS = append(oldS, cq.Pair(strconv.FormatUint(s.ID, 10), "None"))
			continue
		}
		oldS = append(oldS, cq.Pair(strconv.FormatUint(s.ID, 10), cq.Some(coqU32s(s.Deleted))))
		docsS = append(docsS, cq.Pair(strconv.FormatUint(s.ID, 10), coqDocs(segDocs(s))))
		if tbl, ok := m.OldNew[s.ID]; ok {
			tblS = append(tblS, cq.Pair(strconv.FormatUint(s.ID, 10), cq.U64List(tbl)))
		}
	}
	nw := "None"
	np := false
	if m.New != nil {
		nw = cq.Some(coqDocs(segDocs(*m.New)))
		np = m.New.Persisted
	}
	skipped := true
	for _, s := range v.Segs {
		if s.ID == m.MergeID {
			skipped = false
		}
	}
	return fmt.Sprintf("EMerge (MG %d %s %s %s %s) %s %s %s", m.MergeID, cq.List(oldS), cq.List(tblS), nw, cq.B(np),
		cq.List(docsS), coqSnap(v.Epoch, v.Segs), cq.B(skipped))
}

// ---- reopening a crash image with the real code ----

type reopenResult struct {
	WFail, WFresh bool
	WErr          string
	WEpoch        uint64
	WContent      []DV
	SnapsLeft     []uint64
	SegsLeft      []uint64
	RFail         bool
	REpoch        uint64
	RContent      []DV
	Panic         string
	LockLeft      bool     // the directory is still locked after the open attempt (and Close, when it succeeded)
	HandlesLeft   []string // handles still open at that point
}

func listImage(d *sim.SimDir) (snaps, segs []uint64) {
	for k := range d.Image() {
		var id uint64
		if strings.HasPrefix(k, ".snp/") {
			fmt.Sscanf(k[5:], "%x", &id)
			snaps = append(snaps, id)
		} else if strings.HasPrefix(k, ".seg/") {
			fmt.Sscanf(k[5:], "%x", &id)
			segs = append(segs, id)
		}
	}
	return
}

func reopen(files map[string][]byte, wo WorldOpts, universe []int) reopenResult {
	var res reopenResult
	fin, pan := cq.Guard(60*time.Second, func() {
		// writer
		rec := &sim.Recorder{}
		dw := sim.FromImage(files, rec)
		o2 := wo
		o2.DirKind = "sim"
		o2.OpDelayUs = 0
		o2.Image = nil
		o2.Merges = "off" // no background merge may change the directory between open and close
		w2 := NewWorld(o2, rand.New(rand.NewSource(1)))
		w2.Dir = dw
		cfg := w2.config()
		hadSnaps := false
		for k := range files {
			if strings.HasPrefix(k, ".snp/") {
				hadSnaps = true
			}
		}
		wr, err := bluge.OpenWriter(cfg)
		if err != nil {
			res.WFail = true
			res.WErr = err.Error()
		} else {
			r, err := wr.Reader()
			if err == nil {
				ob := observeReader(r, universe)
				r.Close()
				res.WEpoch = ob.Epoch
				res.WContent = ob.docs()
				if ob.Err != "" {
					res.WErr = ob.Err
				}
			}
			wr.Close()
			res.SnapsLeft, res.SegsLeft = listImage(dw)
			if os.Getenv("VERIF_DEBUG_REOPEN") != "" {
				for _, e := range rec.Snapshot() {
					fmt.Fprintf(os.Stderr, "  reopen: %s %s %d %s %s\n", e.Kind, e.Item, e.ID, e.Err, e.Note)
				}
			}
			if !hadSnaps {
				res.WFresh = true
			}
		}
		res.LockLeft, res.HandlesLeft = dw.Locked(), dw.OpenHandles()
		// reader
		dr := sim.FromImage(files, &sim.Recorder{})
		cfgR := bluge.DefaultConfigWithDirectory(func() index.Directory { return dr })
		ic := cfgR.VerifIndexConfig()
		if wo.SegVersion == 2 {
			ic = ic.WithSegmentVersion(2)
		}
		cfgR = cfgR.VerifWithIndexConfig(ic)
		rd, err := bluge.OpenReader(cfgR)
		if err != nil {
			res.RFail = true
		} else {
			ob := observeReader(rd, universe)
			rd.Close()
			res.REpoch = ob.Epoch
			res.RContent = ob.docs()
		}
	})
	if !fin {
		res.Panic = "hang"
	}
	if pan != nil {
		res.Panic = fmt.Sprint(pan)
	}
	return res
}

func (r reopenResult) coqW() string {
	if r.WFail {
		return "WFail"
	}
	if r.WFresh {
		return "WFresh"
	}
	return fmt.Sprintf("(WOk %d %s %s %s)", r.WEpoch, coqDocs(r.WContent), cq.U64List(r.SnapsLeft), cq.U64List(r.SegsLeft))
}

func (r reopenResult) coqR() string {
	if r.RFail {
		return "RFail"
	}
	return fmt.Sprintf("(ROk %d %s)", r.REpoch, coqDocs(r.RContent))
}

// ---- the engine ----

type lineage struct {
	base          []DV        // content the first round started from
	batches       []BatchSpec // applied sequence (introduction order) across rounds, already cut to recovered prefixes
	acked         map[int]bool
	everCompleted bool
	ackedPrefix   int // the first ackedPrefix batches were acknowledged before an earlier crash
}

func (l *lineage) contentAfter(n int) []DV {
	A := append([]DV{}, l.base...)
	for _, b := range l.batches[:n] {
		A = applyAbstract(A, b)
	}
	return A
}

func runProto(o Opts, mode string) error {
	rng := rand.New(rand.NewSource(o.Seed))
	cw := cq.New(o.Out, "From Bluge Require Import Base.Res Index.Model Index.Trace Index.TraceCorr Index.Proto Index.ProtoCorr.", "pcase", 1)
	cw.Extra = "Definition R := Eval vm_compute in rejects cases.\nPrint R.\n"
	nRuns := map[string]int{"c02": 24, "c03": 16, "c11": 24, "c14": 24}[mode]
	if o.Thorough() {
		nRuns *= 3
	}
	keyBase := 0
	for s := 0; s < nRuns; s++ {
		wo := WorldOpts{DirKind: "sim", Universe: 3 + rng.Intn(4), Poison: true}
		if s%4 == 3 { // the real FileSystemDirectory behind the recorder
			wo.DirKind = "fsrec"
			wo.Path = workDir(fmt.Sprintf("proto-%s-%d-%d", mode, o.Seed, s))
		}
		wo.SegVersion = uint32(1 + rng.Intn(2))
		wo.Unsafe = rng.Intn(4) == 0 || (mode == "c11" && rng.Intn(3) == 0)
		wo.Merges = []string{"small", "small", "default", "off"}[rng.Intn(4)]
		if (mode == "c02" || mode == "c11") && !wo.Unsafe && wo.Merges == "off" {
			wo.MemMergeMin = 2 // no file merges, but the persister still merges in-memory segments (staged schedule below)
		}
		wo.KeepN = 1 + rng.Intn(3)
		wo.OpDelayUs = []int{0, 100, 800}[rng.Intn(3)]
		rounds := 1
		if mode == "c03" {
			rounds = 2 + rng.Intn(2)
			if o.Thorough() {
				rounds = 2 + rng.Intn(3)
			}
		}
		lin := &lineage{acked: map[int]bool{}}
		start := newMdisk()
		segdocs := map[uint64][]DV{}
		var image map[string][]byte
		for round := 0; round < rounds; round++ {
			desc := map[string]interface{}{"run": s, "round": round, "mode": mode, "unsafe": wo.Unsafe, "segver": wo.SegVersion,
				"merges": wo.Merges, "keepN": wo.KeepN, "universe": wo.Universe, "seed": o.Seed}
			wo.Image = image
			w := NewWorld(wo, rand.New(rand.NewSource(rng.Int63())))
			w.nextKey = keyBase
			w.nextV = keyBase*10 + 1
			var faults *faultPlan
			if mode == "c14" || ((mode == "c02" || mode == "c11") && s%3 == 2) {
				faults = newFaultPlan(rng)
				if mode != "c14" {
					faults.sticky = false
				}
				if mode == "c14" && wo.DirKind == "fsrec" {
					// on the real directory the fault reaches the code through the io.Writer handed to WriteTo: every
					// run of the check places one inside a snapshot write and one inside a segment write, early
					// enough to strike before the plan is cleared
					combos := [][2]string{{"persist.snp", "partial"}, {"persist.seg", "after"}, {"persist.snp", "after"}, {"persist.seg", "partial"}, {"persist.snp", "partial"}, {"remove", "before"}}
					cmb := combos[(s/4)%len(combos)]
					faults.class, faults.when = cmb[0], cmb[1]
					if faults.fromN > 2 {
						faults.fromN = faults.fromN % 3
					}
				}
				if mode == "c11" && rng.Intn(2) == 0 {
					faults.class = "remove" // refused removals: the clean-up has to keep its books right
					faults.transient = 2 + rng.Intn(4)
				}
				if mode == "c14" && wo.DirKind == "sim" && s%4 == 1 {
					// faults that strike only between Batch calls: with a merge policy that merges small segments
					// they land on the file merger's own segment write or load while the writer is otherwise idle
					w.O.Merges = "small"
					faults.class = []string{"persist.seg", "load.seg"}[(s/4)%2]
					faults.when = []string{"before", "after", "partial"}[(s/8)%3]
					faults.sticky = false
					faults.fromN = 0
					faults.transient = 1 + (s/4)%3
					faults.idleOnly = w.Idle
					desc["merges"] = "small"
				}
				desc["faults"] = faults.describe()
			}
			if wo.DirKind == "fsrec" && round > 0 {
				wo.Path = workDir(fmt.Sprintf("proto-%s-%d-%d-r%d", mode, o.Seed, s, round))
				w.O.Path = wo.Path
			}
			desc["dir"] = wo.DirKind
			var runErr error
			fin, pan := cq.Guard(120*time.Second, func() { runErr = protoScenario(cw, w, rng, mode, faults, desc) })
			if !fin {
				cw.Abort("scenario-hang", "writer run did not finish within 120s (Batch or Close blocked)", desc)
			}
			if pan != nil {
				cw.OracleFail("scenario-panic", fmt.Sprint(pan), desc)
				break
			}
			if runErr != nil {
				cw.OracleFail("scenario-error", runErr.Error(), desc)
				break
			}
			keyBase = w.nextKey + 1
			conv := w.convertProto(start, segdocs)
			nextImage, nextDisk, cut := protoProbes(cw, w, conv, lin, rng, mode, o, desc)
			// emit the case
			var tbl []string
			keys := make([]string, 0, len(conv.table))
			for k := range conv.table {
				keys = append(keys, k)
			}
			sort.Strings(keys)
			for _, k := range keys {
				tbl = append(tbl, cq.Bytes(conv.table[k]))
			}
			term := fmt.Sprintf("PC %d %s %s %s %s %s", wo.KeepN, cq.List(tbl), coqDisk(start), coqSegdocs(segdocsAtStart(conv, start)), cq.List(conv.events), cq.List(conv.probeTerms))
			desc["events"], desc["probes"], desc["intros"] = len(conv.events), len(conv.probeTerms), conv.stats.Intros
			if len(term) > 1500000 {
				// the proof assistant's parser overflows its stack on a single term of this size; the run's oracle
				// predicates above were evaluated, only the monitor validation of this one trace is skipped
				cw.Count("trace_too_large_for_monitor", 1)
			} else {
				cw.Add(term, mode, conv.stats.Intros >= 2 && len(conv.probeTerms) > 0, desc)
			}
			cw.Count("events", len(conv.events))
			cw.Count("probes", len(conv.probeTerms))
			cw.Count("intros", conv.stats.Intros)
			cw.Count("merges", conv.stats.Merges)
			cw.Count("persist_swaps", conv.stats.Swaps)
			cw.Count("in_memory_merges", conv.stats.MemMerges)
			cw.Count("in_memory_merges_obsoleted_before_introduction", conv.stats.MergesSkipped)
			cw.Count("traces_validated", 1)
			if wo.DirKind == "fsrec" {
				os.RemoveAll(wo.Path)
			}
			if nextImage == nil {
				break
			}
			// continue from the crash image: the applied sequence is cut to the recovered prefix
			lin.batches = lin.batches[:cut]
			image, start = nextImage, nextDisk
			// only the segment files of the image survive; ids above them are assigned anew
			for id := range segdocs {
				if _, ok := nextDisk.seg[id]; !ok {
					delete(segdocs, id)
				}
			}
		}
	}
	cw.Close()
	return nil
}

func segdocsAtStart(c *pconv, start *mdisk) map[uint64][]DV {
	out := map[uint64][]DV{}
	for _, segs := range start.snpSegs {
		for _, s := range segs {
			if d, ok := c.segdocs[s.ID]; ok {
				out[s.ID] = d
			}
		}
	}
	return out
}

func coqSegdocs(m map[uint64][]DV) string {
	ids := make([]uint64, 0, len(m))
	for id := range m {
		ids = append(ids, id)
	}
	sort.Slice(ids, func(a, b int) bool { return ids[a] < ids[b] })
	it := make([]string, len(ids))
	for i, id := range ids {
		it[i] = cq.Pair(strconv.FormatUint(id, 10), coqDocs(m[id]))
	}
	return cq.List(it)
}

func coqDisk(d *mdisk) string {
	var snp, seg, jsnp, jseg []string
	eps := make([]uint64, 0)
	for e := range d.snp {
		eps = append(eps, e)
	}
	sort.Slice(eps, func(a, b int) bool { return eps[a] < eps[b] })
	for _, e := range eps {
		snp = append(snp, cq.Pair(strconv.FormatUint(e, 10), fmt.Sprintf("(SF %s %s)", cq.Bytes(d.snp[e]), coqSnpSegs(d.snpSegs[e]))))
	}
	ids := make([]uint64, 0)
	for id := range d.seg {
		ids = append(ids, id)
	}
	sort.Slice(ids, func(a, b int) bool { return ids[a] < ids[b] })
	for _, id := range ids {
		seg = append(seg, strconv.FormatUint(id, 10))
	}
	eps = eps[:0]
	for e := range d.junkSnp {
		eps = append(eps, e)
	}
	sort.Slice(eps, func(a, b int) bool { return eps[a] < eps[b] })
	for _, e := range eps {
		jsnp = append(jsnp, cq.Pair(strconv.FormatUint(e, 10), cq.Bytes(d.junkSnp[e])))
	}
	ids = ids[:0]
	for id := range d.junkSeg {
		ids = append(ids, id)
	}
	sort.Slice(ids, func(a, b int) bool { return ids[a] < ids[b] })
	for _, id := range ids {
		jseg = append(jseg, strconv.FormatUint(id, 10))
	}
	return fmt.Sprintf("(DK %s %s %s %s)", cq.List(snp), cq.List(seg), cq.List(jsnp), cq.List(jseg))
}

// protoScenario drives one writer run.
func protoScenario(cw *cq.Writer, w *World, rng *rand.Rand, mode string, faults *faultPlan, desc map[string]interface{}) error {
	w.config()
	if faults != nil {
		w.SetFaultAt(faults.at)
	}
	if err := w.Open(); err != nil {
		return fmt.Errorf("open: %w", err)
	}
	n := 4 + rng.Intn(14)
	var batchErrs int
	var cbKeys []int // batches issued with a persisted-callback
	// c11: some runs rewrite every id in every batch (unsafe mode): segments lose all their documents while
	// the persister is still writing and re-opening them
	churn := mode == "c11" && w.O.Unsafe && rng.Intn(2) == 0
	if churn {
		desc["churn"] = true
	}
	for i := 0; i < n; i++ {
		b := w.GenBatch()
		if churn {
			b.Ops = nil
			for id := 0; id < 2; id++ {
				w.mu.Lock()
				v := w.nextV
				w.nextV++
				w.mu.Unlock()
				b.Ops = append(b.Ops, DocOp{Kind: "upd", ID: id, V: v})
			}
		}
		withCb := w.O.Unsafe || rng.Intn(3) == 0
		if withCb {
			cbKeys = append(cbKeys, b.Key)
		}
		err := w.Do(b, withCb)
		if err != nil {
			batchErrs++
			if faults == nil {
				return fmt.Errorf("batch %d: %w", b.Key, err)
			}
		}
		if rng.Intn(3) == 0 {
			if _, err := w.Observe(); err != nil {
				return err
			}
		}
		if rng.Intn(5) == 0 {
			waitQuiet(w.Rec, 2*time.Millisecond, 200*time.Millisecond)
		}
		if faults != nil && faults.idleOnly != nil {
			waitQuiet(w.Rec, 3*time.Millisecond, 150*time.Millisecond) // let the merger work between batches
		}
		if faults != nil && faults.idleOnly == nil && rng.Intn(4) == 0 {
			faults.clearTransient()
		}
	}
	if (mode == "c02" || mode == "c11") && !w.O.Unsafe && w.O.Merges == "off" && (w.Dir != nil || w.RDir != nil) {
		if err := protoSupersededMemMerge(w, faults, desc); err != nil {
			return err
		}
	}
	if mode == "c02" && !w.O.Unsafe && rng.Intn(2) == 0 {
		// several callers at once: roots then hold more than one in-memory segment when the persister grabs
		// them, so it merges them in memory while further batches supersede what it is merging; every call
		// that returns nil must still be covered by a complete snapshot at that moment
		desc["concurrent_callers"] = true
		g := 3 + rng.Intn(3)
		sets := make([][]BatchSpec, g)
		for i := range sets {
			for j := 0; j < 3+rng.Intn(4); j++ {
				b := w.GenBatch()
				hasMarker := false
				for _, op := range b.Ops {
					if op.ID >= 1000000 {
						hasMarker = true
					}
				}
				if !hasMarker {
					b.Ops = append(b.Ops, DocOp{Kind: "del", ID: 1000000 + b.Key})
				}
				sets[i] = append(sets[i], b)
			}
		}
		var wg sync.WaitGroup
		var emu sync.Mutex
		var firstErr error
		for i := range sets {
			wg.Add(1)
			go func(bs []BatchSpec) {
				defer wg.Done()
				for _, b := range bs {
					if err := w.Do(b, false); err != nil {
						emu.Lock()
						batchErrs++
						if firstErr == nil {
							firstErr = fmt.Errorf("batch %d: %w", b.Key, err)
						}
						emu.Unlock()
					}
				}
			}(sets[i])
		}
		wg.Wait()
		if firstErr != nil && faults == nil {
			return firstErr
		}
	}
	if faults != nil {
		// the fault clears: the writer, without being reopened, must give an acknowledgement again
		faults.clearAll()
		b := w.GenBatch()
		if err := w.Do(b, true); err != nil {
			cw.OracleFail("no-recovery-after-fault", fmt.Sprintf("batch %d after the faults cleared still fails: %v", b.Key, err), desc)
		} else if mode == "c14" {
			// that acknowledgement covers everything applied before: the persisted-callback of this batch and of
			// every earlier batch (also those whose own call returned the error) fires, without error
			cw.OracleEval(1)
			want := append(append([]int{}, cbKeys...), b.Key)
			missing := want
			for deadline := time.Now().Add(5 * time.Second); time.Now().Before(deadline); time.Sleep(2 * time.Millisecond) {
				fired := map[int]bool{}
				for _, e := range w.Rec.Snapshot() {
					if e.Kind == "callback" && e.Err == "" {
						fired[e.Batch] = true
					}
				}
				missing = nil
				for _, k := range want {
					if !fired[k] {
						missing = append(missing, k)
					}
				}
				if len(missing) == 0 {
					break
				}
			}
			if len(missing) > 0 {
				cw.OracleFail("acknowledgement-after-fault-incomplete", fmt.Sprintf("5 s after the faults cleared and batch %d was accepted, the persisted-callbacks of batches %v (applied before) have not fired", b.Key, missing), desc)
			}
			cw.Count("callbacks_expected_after_fault", len(want))
		}
		desc["batch_errors"] = batchErrs
	}
	waitQuiet(w.Rec, 5*time.Millisecond, 600*time.Millisecond)
	if _, err := w.Observe(); err != nil {
		return err
	}
	// C11: a second writer on the locked directory is refused and does not harm the first
	if mode == "c11" {
		cw.OracleEval(1)
		before, _ := w.Observe()
		cfg2 := w.Cfg
		if w.RDir != nil {
			cfg2 = bluge.DefaultConfig(w.O.Path) // a second process has its own directory object
		}
		// twice: a refused attempt must not weaken the lock for the next one
		for attempt := 1; attempt <= 2; attempt++ {
			w2, err := bluge.OpenWriter(cfg2)
			if err == nil {
				w2.Close()
				cw.OracleFail("second-writer-not-refused", fmt.Sprintf("OpenWriter (attempt %d) succeeded on a directory locked by an open writer", attempt), desc)
				break
			}
		}
		w.attach()
		after, err2 := w.Observe()
		if err2 != nil || !sameDV(after.docs(), before.docs()) || after.Count != before.Count {
			cw.OracleFail("second-writer-harmed-first", "the first writer answers differently after a refused second OpenWriter", desc)
		}
		b := w.GenBatch()
		if err := w.Do(b, false); err != nil {
			cw.OracleFail("second-writer-harmed-first", "the first writer fails a batch after a refused second OpenWriter: "+err.Error(), desc)
		}
		waitQuiet(w.Rec, 5*time.Millisecond, 600*time.Millisecond)
	}
	if mode == "c02" && !w.O.Unsafe && faults == nil && w.Dir != nil && rng.Intn(3) == 0 {
		// staged: Close arrives while the persister is held inside the round of batch A and batch B already waits
		// in the next root; whatever Close does with B, a nil return of B needs a complete snapshot containing it
		desc["close_race_staged"] = true
		return protoStagedCloseRace(cw, w, desc)
	}
	if mode == "c02" && !w.O.Unsafe && rng.Intn(3) == 0 {
		// Close racing with safe batches: a batch that returns nil must be durable whatever Close does; batches
		// that never return (the writer stopped before persisting them) are abandoned, not counted
		desc["close_race"] = true
		var wg sync.WaitGroup
		stop := make(chan struct{})
		for g := 0; g < 2; g++ {
			wg.Add(1)
			bs := []BatchSpec{w.GenBatch(), w.GenBatch(), w.GenBatch(), w.GenBatch()}
			go func(bs []BatchSpec) {
				defer wg.Done()
				// a Batch that starts after Close has dropped the root dereferences nil: misuse outside the
				// property (the call does not return nil), so it is only counted
				defer func() {
					if r := recover(); r != nil {
						cw.Count("batch_after_close_panics", 1)
					}
				}()
				for _, b := range bs {
					select {
					case <-stop:
						return
					default:
					}
					_ = w.Do(b, false)
				}
			}(bs)
		}
		time.Sleep(time.Duration(rng.Intn(3000)) * time.Microsecond)
		cerr := w.Close()
		close(stop)
		done := make(chan struct{})
		go func() { wg.Wait(); close(done) }()
		select {
		case <-done:
		case <-time.After(300 * time.Millisecond):
			desc["batches_left_blocked_by_close"] = true
		}
		if cerr != nil {
			return fmt.Errorf("close: %w", cerr)
		}
		return nil
	}
	if err := w.Close(); err != nil {
		return fmt.Errorf("close: %w", err)
	}
	if mode == "c11" {
		cw.OracleEval(3)
		if w.DirLocked() {
			cw.OracleFail("lock-not-released", "directory still locked after Writer.Close", desc)
		}
		if h := w.DirOpenHandles(); len(h) > 0 {
			cw.OracleFail("handles-leaked", fmt.Sprintf("open handles after Close with no reader open: %v", h), desc)
		}
		for _, e := range w.Rec.Snapshot() {
			if e.Kind == "double-close" {
				cw.OracleFail("handle-closed-twice", e.Note, desc)
			}
		}
		// an OpenWriter that is refused after it took the lock (no snapshot passes its checksum) gives the lock back
		if w.Dir != nil {
			img := w.Dir.Image()
			bad := 0
			for k, v := range img {
				if strings.HasPrefix(k, ".snp/") && len(v) > 0 {
					v[len(v)-1] ^= 0x5a
					bad++
				}
			}
			if bad > 0 {
				cw.OracleEval(1)
				res := reopen(img, w.O, w.universeIDs())
				cw.Count("refused_open_probes", 1)
				if res.WFail {
					cw.Count("refused_open_probes_refused", 1)
				}
				if res.Panic != "" {
					cw.OracleFail("recovery-crashes", "opening a directory whose snapshots all fail their checksum: "+res.Panic, desc)
				} else if res.LockLeft {
					cw.OracleFail("lock-not-released", fmt.Sprintf("the directory stays locked after an OpenWriter that failed=%v (%s)", res.WFail, res.WErr), desc)
				} else if len(res.HandlesLeft) > 0 {
					cw.OracleFail("handles-leaked", fmt.Sprintf("handles still open after an OpenWriter that failed=%v: %v", res.WFail, res.HandlesLeft), desc)
				}
			}
		}
	}
	return nil
}

// protoSupersededMemMerge stages the schedule in which the persister's merge of the in-memory segments of its
// snapshot is superseded before it is introduced: the persister is held at a segment write (directory gate)
// while two disjoint safe batches enter the root, let go, held again at the write of the merged segment while
// a third batch rewrites every document of the two, and let go.  The two batches' calls then return: a
// complete snapshot containing them has to be on disk at that moment (monitor + crash probes decide).
func protoSupersededMemMerge(w *World, faults *faultPlan, desc map[string]interface{}) error {
	var mu sync.Mutex
	armed := false
	var blocked, release chan struct{}
	arm := func() (chan struct{}, chan struct{}) {
		mu.Lock()
		defer mu.Unlock()
		armed = true
		blocked, release = make(chan struct{}), make(chan struct{})
		return blocked, release
	}
	gate := func(op sim.Op) {
		if op.Op != "persist" || op.Item != ".seg" {
			return
		}
		mu.Lock()
		if !armed {
			mu.Unlock()
			return
		}
		armed = false
		b, r := blocked, release
		mu.Unlock()
		close(b)
		select {
		case <-r:
		case <-time.After(3 * time.Second):
		}
	}
	var prev func(op sim.Op)
	if w.Dir != nil {
		prev = w.Dir.Gate
		w.Dir.Gate = func(op sim.Op) {
			if prev != nil {
				prev(op)
			}
			gate(op)
		}
		defer func() { w.Dir.Gate = prev }()
	} else {
		prev = w.RDir.Gate
		w.RDir.Gate = func(op sim.Op) {
			if prev != nil {
				prev(op)
			}
			gate(op)
		}
		defer func() { w.RDir.Gate = prev }()
	}
	mk := func(ops ...DocOp) BatchSpec {
		w.mu.Lock()
		key := w.nextKey
		w.nextKey++
		for i := range ops {
			if ops[i].Kind != "del" {
				ops[i].V = w.nextV
				w.nextV++
			}
		}
		w.mu.Unlock()
		return BatchSpec{Key: key, Ops: append(ops, DocOp{Kind: "del", ID: 1000000 + key})}
	}
	introduced := func(key int) bool {
		for _, e := range w.Rec.Snapshot() {
			if e.Kind == "intro-segment" && e.Batch == key {
				return true
			}
		}
		return false
	}
	waitIntro := func(keys ...int) bool {
		for deadline := time.Now().Add(time.Second); time.Now().Before(deadline); time.Sleep(200 * time.Microsecond) {
			all := true
			for _, k := range keys {
				if !introduced(k) {
					all = false
				}
			}
			if all {
				time.Sleep(300 * time.Microsecond) // the root replacement follows the introduction event at once
				return true
			}
		}
		return false
	}
	var wg sync.WaitGroup
	var emu sync.Mutex
	var firstErr error
	issue := func(b BatchSpec) {
		wg.Add(1)
		go func() {
			defer wg.Done()
			if err := w.Do(b, false); err != nil {
				emu.Lock()
				if firstErr == nil {
					firstErr = fmt.Errorf("batch %d: %w", b.Key, err)
				}
				emu.Unlock()
			}
		}()
	}
	staged := false
	b0 := mk(DocOp{Kind: "ins", ID: 100})
	b1 := mk(DocOp{Kind: "upd", ID: 0})
	b2 := mk(DocOp{Kind: "upd", ID: 1})
	b3 := mk(DocOp{Kind: "upd", ID: 0}, DocOp{Kind: "upd", ID: 1})
	blk1, rel1 := arm()
	issue(b0)
	select {
	case <-blk1:
		issue(b1)
		issue(b2)
		ok := waitIntro(b1.Key, b2.Key)
		blk2, rel2 := arm()
		close(rel1)
		if ok {
			select {
			case <-blk2:
				issue(b3)
				staged = waitIntro(b3.Key)
			case <-time.After(time.Second):
			}
		}
		close(rel2)
	case <-time.After(time.Second):
		close(rel1)
	}
	mu.Lock()
	armed = false
	mu.Unlock()
	done := make(chan struct{})
	go func() { wg.Wait(); close(done) }()
	select {
	case <-done:
	case <-time.After(10 * time.Second):
		return fmt.Errorf("staged batches did not return within 10s")
	}
	desc["superseded_mem_merge_staged"] = staged
	if firstErr != nil && faults == nil {
		return firstErr
	}
	return nil
}

// protoSegGate holds the next segment write of the directory until released (or 3 s).
type protoSegGate struct {
	mu               sync.Mutex
	armed            bool
	blocked, release chan struct{}
}

func (g *protoSegGate) arm() (chan struct{}, chan struct{}) {
	g.mu.Lock()
	defer g.mu.Unlock()
	g.armed = true
	g.blocked, g.release = make(chan struct{}), make(chan struct{})
	return g.blocked, g.release
}

func (g *protoSegGate) disarm() {
	g.mu.Lock()
	g.armed = false
	g.mu.Unlock()
}

func (g *protoSegGate) gate(op sim.Op) {
	if op.Op != "persist" || op.Item != ".seg" {
		return
	}
	g.mu.Lock()
	if !g.armed {
		g.mu.Unlock()
		return
	}
	g.armed = false
	b, r := g.blocked, g.release
	g.mu.Unlock()
	close(b)
	select {
	case <-r:
	case <-time.After(3 * time.Second):
	}
}

// install chains the gate behind whatever gate the directory already has; the returned function restores it.
func (g *protoSegGate) install(w *World) func() {
	if w.Dir != nil {
		prev := w.Dir.Gate
		w.Dir.Gate = func(op sim.Op) {
			if prev != nil {
				prev(op)
			}
			g.gate(op)
		}
		return func() { w.Dir.Gate = prev }
	}
	prev := w.RDir.Gate
	w.RDir.Gate = func(op sim.Op) {
		if prev != nil {
			prev(op)
		}
		g.gate(op)
	}
	return func() { w.RDir.Gate = prev }
}

func protoMarkedBatch(w *World, ops ...DocOp) BatchSpec {
	w.mu.Lock()
	key := w.nextKey
	w.nextKey++
	for i := range ops {
		if ops[i].Kind != "del" {
			ops[i].V = w.nextV
			w.nextV++
		}
	}
	w.mu.Unlock()
	return BatchSpec{Key: key, Ops: append(ops, DocOp{Kind: "del", ID: 1000000 + key})}
}

func protoWaitIntro(w *World, keys ...int) bool {
	for deadline := time.Now().Add(time.Second); time.Now().Before(deadline); time.Sleep(200 * time.Microsecond) {
		seen := map[int]bool{}
		for _, e := range w.Rec.Snapshot() {
			if e.Kind == "intro-segment" {
				seen[e.Batch] = true
			}
		}
		all := true
		for _, k := range keys {
			if !seen[k] {
				all = false
			}
		}
		if all {
			time.Sleep(300 * time.Microsecond) // the root replacement follows the introduction event at once
			return true
		}
	}
	return false
}

// protoStagedCloseRace: see the call site.  Batches that never return are abandoned (the writer stopped before
// persisting them), a panic of a Batch that started after Close dropped the root is only counted.
func protoStagedCloseRace(cw *cq.Writer, w *World, desc map[string]interface{}) error {
	g := &protoSegGate{}
	restore := g.install(w)
	defer restore()
	var wg sync.WaitGroup
	issue := func(b BatchSpec) {
		wg.Add(1)
		go func() {
			defer wg.Done()
			defer func() {
				if r := recover(); r != nil {
					cw.Count("batch_after_close_panics", 1)
				}
			}()
			_ = w.Do(b, false)
		}()
	}
	a := protoMarkedBatch(w, DocOp{Kind: "upd", ID: 0})
	b := protoMarkedBatch(w, DocOp{Kind: "upd", ID: 1})
	blk, rel := g.arm()
	issue(a)
	staged := false
	closed := make(chan error, 1)
	select {
	case <-blk:
		issue(b)
		staged = protoWaitIntro(w, b.Key)
		go func() { closed <- w.Close() }()
		time.Sleep(2 * time.Millisecond) // the close signal is out before the held write goes on
		close(rel)
	case <-time.After(time.Second):
		close(rel)
		go func() { closed <- w.Close() }()
	}
	g.disarm()
	desc["close_race_staged_ok"] = staged
	var cerr error
	select {
	case cerr = <-closed:
	case <-time.After(20 * time.Second):
		return fmt.Errorf("close: did not return within 20s")
	}
	done := make(chan struct{})
	go func() { wg.Wait(); close(done) }()
	select {
	case <-done:
	case <-time.After(300 * time.Millisecond):
		desc["batches_left_blocked_by_close"] = true
	}
	if cerr != nil {
		return fmt.Errorf("close: %w", cerr)
	}
	return nil
}

// ---- fault plans (C14) ----

type faultPlan struct {
	rng       *rand.Rand
	class     string // persist.seg | persist.snp | load.seg | remove | list
	when      string // before | partial | after
	sticky    bool
	fromN     int
	active    bool
	transient int // remaining failures for a transient fault
	hits      int
	idleOnly  func() bool // when set: strike only while no Batch call is in progress (the merger's operations)
}

func newFaultPlan(rng *rand.Rand) *faultPlan {
	f := &faultPlan{rng: rand.New(rand.NewSource(rng.Int63())), active: true}
	f.class = []string{"persist.seg", "persist.snp", "persist.snp", "load.seg", "remove", "persist.seg"}[rng.Intn(6)]
	f.when = []string{"before", "partial", "after"}[rng.Intn(3)]
	f.sticky = rng.Intn(3) == 0
	f.fromN = rng.Intn(12)
	f.transient = 1 + rng.Intn(3)
	return f
}

func (f *faultPlan) describe() string {
	return fmt.Sprintf("%s %s sticky=%v from-op=%d transient=%d idle-only=%v", f.class, f.when, f.sticky, f.fromN, f.transient, f.idleOnly != nil)
}

func (f *faultPlan) at(op sim.Op) *sim.Fault {
	cls := op.Op
	if op.Op == "persist" || op.Op == "load" {
		cls = op.Op + op.Item
	}
	if !f.active || cls != f.class || op.N < f.fromN {
		return nil
	}
	if f.idleOnly != nil && !f.idleOnly() {
		return nil
	}
	if !f.sticky {
		if f.transient <= 0 {
			return nil
		}
		f.transient--
	}
	f.hits++
	// the persister retries a failed round at once and without pause; keep a persistent fault from producing
	// hundreds of thousands of identical rounds (the trace would only get longer, not different)
	switch {
	case f.hits > 200:
		time.Sleep(5 * time.Millisecond)
	case f.hits > 40:
		time.Sleep(time.Millisecond)
	}
	return &sim.Fault{Err: fmt.Errorf("injected %s fault", f.class), When: f.when}
}

func (f *faultPlan) clearTransient() {
	if !f.sticky {
		f.transient = 0
	}
}
func (f *faultPlan) clearAll() { f.active = false }

// ---- crash probes ----

func (c *pconv) addProbe(at int, choice []tornChoice, res reopenResult) {
	ch := make([]string, len(choice))
	for i, t := range choice {
		ch[i] = t.coq()
	}
	c.probeTerms = append(c.probeTerms, fmt.Sprintf("PR %d %s %s %s", at, cq.List(ch), res.coqW(), res.coqR()))
}

// protoProbes picks crash points, reopens each image with the real code, evaluates the durability /
// prefix / retention predicates, and returns the image to continue from (multi-round runs).
func protoProbes(cw *cq.Writer, w *World, c *pconv, lin *lineage, rng *rand.Rand, mode string, o Opts, desc map[string]interface{}) (map[string][]byte, *mdisk, int) {
	// the applied sequence of this lineage grows by this round's introductions
	baseLen := len(lin.batches)
	for _, k := range c.order {
		lin.batches = append(lin.batches, w.Specs[k])
	}
	posOf := map[int]int{}
	for i, k := range c.order {
		posOf[k] = baseLen + i
	}
	nEv := len(c.events)
	// candidate crash points: right after every persist-start (file in flight), after every persist-ok,
	// after acknowledgements, plus random boundaries
	var points []int
	for i, ev := range c.events {
		if strings.HasPrefix(ev, "PPersistStart") || strings.HasPrefix(ev, "PPersistOk") || strings.HasPrefix(ev, "PAck") || strings.HasPrefix(ev, "PRemoveOk") {
			points = append(points, i+1)
		}
	}
	for k := 0; k < 4; k++ {
		points = append(points, rng.Intn(nEv+1))
	}
	points = append(points, nEv)
	maxProbes := 10
	fsEvery := 6
	if o.Thorough() {
		maxProbes = 30
		fsEvery = 3
	}
	rng.Shuffle(len(points), func(i, j int) { points[i], points[j] = points[j], points[i] })
	if len(points) > maxProbes {
		points = points[:maxProbes]
	}
	sort.Ints(points)
	universe := w.universeIDs()
	var contImage map[string][]byte
	var contDisk *mdisk
	contCut := 0
	contPick := -1
	contAt := -1
	contIsTail := false
	if mode == "c03" && len(points) > 0 {
		contPick = rng.Intn(len(points))
	}
	for pi, at := range points {
		d := c.diskAt[at]
		// torn variants of the in-flight files
		var variants [][]tornChoice
		if len(d.fly) == 0 {
			variants = [][]tornChoice{{}}
		} else {
			nv := 3
			if o.Thorough() {
				nv = 5
			}
			for v := 0; v < nv; v++ {
				ch := make([]tornChoice, len(d.fly))
				for i, f := range d.fly {
					if f.snp && mode == "c03" && v == 1 {
						// a snapshot file of which only the first one to four bytes reached the disk
						ch[i] = tornChoice{Kind: "prefix", Len: 1 + rng.Intn(4)}
						continue
					}
					if f.snp && mode == "c03" && (v == 0 || rng.Intn(3) == 0) && len(f.bytes) > 6 {
						// the body may still decode while the checksum trailer is cut
						ch[i] = tornChoice{Kind: "prefix", Len: len(f.bytes) - 1 - rng.Intn(5)}
						continue
					}
					switch r := rng.Intn(8); {
					case r == 0:
						ch[i] = tornChoice{Kind: "absent"}
					case r == 1:
						ch[i] = tornChoice{Kind: "zeros"}
					case r == 2:
						ch[i] = tornChoice{Kind: "full"}
					case r == 3:
						ch[i] = tornChoice{Kind: "prefix", Len: 0}
					case r == 4 && len(f.bytes) > 0:
						ch[i] = tornChoice{Kind: "prefix", Len: len(f.bytes) - 1}
					default:
						ch[i] = tornChoice{Kind: "prefix", Len: rng.Intn(len(f.bytes) + 1)}
					}
				}
				variants = append(variants, ch)
			}
		}
		for vi, ch := range variants {
			files, next := d.image(ch)
			res := reopen(files, w.O, universe)
			cw.Count("crash_images", 1)
			pdesc := map[string]interface{}{"run": desc["run"], "round": desc["round"], "seed": desc["seed"], "crash_after_event": at, "torn": fmt.Sprint(ch)}
			// ---- the property predicates, on the real code ----
			cw.OracleEval(1)
			if res.Panic != "" {
				cw.OracleFail("recovery-crashes", "reopening the crash image panicked or hung: "+res.Panic, pdesc)
				continue
			}
			c.addProbe(at, ch, res)
			if mode == "c11" {
				cw.OracleEval(1)
				if res.LockLeft {
					cw.OracleFail("lock-not-released", fmt.Sprintf("the directory stays locked after OpenWriter on the crash image (open failed=%v) and Close", res.WFail), pdesc)
				}
				if len(res.HandlesLeft) > 0 {
					cw.OracleFail("handles-leaked", fmt.Sprintf("handles still open after OpenWriter on the crash image (open failed=%v) and Close: %v", res.WFail, res.HandlesLeft), pdesc)
				}
			}
			// a sample of the images is also materialised on a real file system and reopened in a child process
			if (pi*7+vi)%fsEvery == 0 || tinySnapshot(d, ch) {
				cw.Count("crash_images_on_real_fs", 1)
				cw.OracleEval(1)
				fsres, status := reopenOnFS(files, fmt.Sprintf("%v-%v-%d-%d", desc["run"], desc["round"], at, vi), w.O.Universe, w.O.SegVersion)
				switch {
				case strings.HasPrefix(status, "crash"):
					cw.OracleFail("recovery-crashes", "reopening the crash image on the file-system directory: "+status, pdesc)
				case status != "ok":
					cw.Count("fs_setup_errors", 1)
				default:
					if fsres.WFail != res.WFail || fsres.RFail != res.RFail ||
						(!res.WFail && (fsres.WEpoch != res.WEpoch || !sameDV(fsres.WContent, res.WContent))) ||
						(!res.RFail && (fsres.REpoch != res.REpoch || !sameDV(fsres.RContent, res.RContent))) {
						cw.OracleFail("fs-and-simulated-recovery-differ", fmt.Sprintf("file system: wfail=%v epoch=%d %v rfail=%v; simulated: wfail=%v epoch=%d %v rfail=%v",
							fsres.WFail, fsres.WEpoch, sortedDV(fsres.WContent), fsres.RFail, res.WFail, res.WEpoch, sortedDV(res.WContent), res.RFail), pdesc)
					}
				}
			}
			completed := c.commitsAt[at] > 0 || len(c.diskAt[0].snp) > 0
			fullSnp := false
			for i, f := range d.fly {
				if f.snp && i < len(ch) && ch[i].Kind == "full" {
					fullSnp = true
				}
			}
			if res.WFail && completed {
				cw.OracleFail("recovery-fails-after-completed-snapshot", "OpenWriter fails although a snapshot had been completed: "+res.WErr, pdesc)
				continue
			}
			if res.RFail && completed {
				cw.OracleFail("reader-recovery-fails-after-completed-snapshot", "OpenReader fails although a snapshot had been completed", pdesc)
			}
			if !res.WFail {
				// content = the abstract index after some prefix of the applied sequence containing every acknowledged batch
				maxAck := -1
				for _, k := range c.ackedAt[at] {
					if p, ok := posOf[k]; ok && p > maxAck {
						maxAck = p
					}
				}
				if lin.ackedPrefix-1 > maxAck {
					maxAck = lin.ackedPrefix - 1
				}
				introduced := baseLen + c.introAt[at]
				best := -1
				for n := introduced; n >= 0; n-- {
					if sameDV(res.WContent, lin.contentAfter(n)) {
						best = n
						break
					}
				}
				_ = fullSnp
				if best < 0 {
					cw.OracleFail("recovered-content-is-not-a-prefix-state", fmt.Sprintf("recovered %v; no prefix of the %d applied batches yields it", sortedDV(res.WContent), introduced), pdesc)
				} else if best <= maxAck {
					cw.OracleFail("acknowledged-batch-lost", fmt.Sprintf("recovered state is the prefix of %d batches but batch at position %d was acknowledged before the crash", best, maxAck), pdesc)
				}
				if !res.RFail && !sameDV(res.RContent, res.WContent) && res.REpoch == res.WEpoch {
					cw.OracleFail("reader-and-writer-recover-differently", "same epoch, different content", pdesc)
				}
				// continuation: in the first round prefer an image whose newest snapshot lost only its last bytes
				// (it may still decode while its checksum fails), otherwise the pre-drawn point
				preferTail := mode == "c03" && desc["round"] == 0 && !contIsTail && tailCut(d, ch)
				if best >= 0 && (preferTail || (pi == contPick && vi == 0 && !contIsTail)) {
					contIsTail = preferTail
					contImage, contDisk, contCut = files, next, best
					contAt = at
				}
			}
		}
	}
	// the file-system directory itself (fsrec runs): success reported only for exact files, failure leaves nothing
	for _, msg := range c.dirOracle {
		cw.OracleFail(strings.Fields(msg)[0], "FileSystemDirectory.Persist: "+msg, desc)
	}
	if w.RDir != nil {
		cw.OracleEval(1)
		last := c.diskAt[len(c.diskAt)-1]
		img := w.DirImage()
		for k := range img {
			var id uint64
			fmt.Sscanf(k[5:], "%x", &id)
			_, a := last.snp[id]
			_, b := last.seg[id]
			_, j1 := last.junkSnp[id]
			_, j2 := last.junkSeg[id]
			if !(strings.HasPrefix(k, ".snp/") && (a || j1)) && !(strings.HasPrefix(k, ".seg/") && (b || j2)) {
				cw.OracleFail("directory-differs-from-log", "file "+k+" exists although no successful persist accounts for it", desc)
			}
		}
		for id := range last.snp {
			if _, ok := img[fmt.Sprintf(".snp/%016x", id)]; !ok {
				cw.OracleFail("directory-differs-from-log", fmt.Sprintf("snapshot %d was reported persisted and never removed but is not in the directory", id), desc)
			}
		}
		for id := range last.seg {
			if _, ok := img[fmt.Sprintf(".seg/%016x", id)]; !ok {
				cw.OracleFail("directory-differs-from-log", fmt.Sprintf("segment %d was reported persisted and never removed but is not in the directory", id), desc)
			}
		}
	}
	// C11 predicates over every prefix of the run
	for _, msg := range c.removedNeeded {
		cw.OracleFail("needed-file-removed", msg, desc)
	}
	cw.OracleEval(len(c.diskAt))
	for i, d := range c.diskAt {
		want := c.commitsAt[i]
		if want > w.O.KeepN {
			want = w.O.KeepN
		}
		have := 0
		for _, segs := range d.snpSegs {
			ok := true
			for _, s := range segs {
				if _, there := d.seg[s.ID]; !there {
					ok = false
				}
			}
			if ok {
				have++
			}
		}
		if have < want {
			cw.OracleFail("retention-violated", fmt.Sprintf("after event %d: %d loadable snapshots on disk, %d required (N=%d, commits=%d)", i, have, want, w.O.KeepN, c.commitsAt[i]), desc)
			break
		}
	}
	// C14 predicates: a failure that kept a batch from becoming durable is surfaced
	if mode == "c14" {
		checkFaultSurfacing(cw, w, c, desc)
	}
	if contImage != nil {
		// acknowledged batches that must survive further crashes
		maxAck := lin.ackedPrefix - 1
		// everything acknowledged before the chosen crash point and within the recovered prefix
		if contAt >= 0 {
			for _, k := range c.ackedAt[contAt] {
				if p, ok := posOf[k]; ok && p > maxAck {
					maxAck = p
				}
			}
		}
		lin.ackedPrefix = maxAck + 1
		if lin.ackedPrefix > contCut {
			lin.ackedPrefix = contCut
		}
	}
	return contImage, contDisk, contCut
}

// checkFaultSurfacing: every safe batch whose persistence round failed returned an error, and the
// asynchronous error callback fired for every failed persist round.
func checkFaultSurfacing(cw *cq.Writer, w *World, c *pconv, desc map[string]interface{}) {
	evs := w.Rec.Snapshot()
	failedRounds, asyncErrs := 0, 0
	for _, e := range evs {
		if e.Kind == "persisted" && e.V.Err != nil && !strings.Contains(e.V.Err.Error(), "closed") {
			failedRounds++
		}
		if e.Kind == "async-error" {
			asyncErrs++
		}
	}
	cw.OracleEval(1)
	if failedRounds > 0 && asyncErrs == 0 {
		cw.OracleFail("fault-not-surfaced", fmt.Sprintf("%d persist rounds failed but the asynchronous error callback never fired", failedRounds), desc)
	}
	// a safe batch grabbed by a failed round must have returned that error
	if !w.O.Unsafe {
		retErr := map[int]bool{}
		for _, e := range evs {
			if e.Kind == "batch-ret" {
				retErr[e.Batch] = e.Err != ""
			}
		}
		var pendingSafe []int
		var grabbed []int
		introBatch := -1
		for _, e := range evs {
			switch e.Kind {
			case "intro-segment":
				// logged when the introducer starts on the batch, outside the root lock: the batch joins the
				// waiting set only when its root replacement (logged under the lock) happens
				introBatch = e.Batch
			case "root":
				if e.V != nil && e.V.Creator == "introduceSegment" {
					if introBatch >= 0 {
						pendingSafe = append(pendingSafe, introBatch)
					}
					introBatch = -1
				}
			case "grab":
				grabbed, pendingSafe = pendingSafe, nil
			case "persisted":
				cw.OracleEval(1)
				failed := e.V.Err != nil
				for _, k := range grabbed {
					if re, ok := retErr[k]; ok && re != failed {
						cw.OracleFail("ack-does-not-match-persist-result", fmt.Sprintf("batch %d returned error=%v but its persist round failed=%v", k, re, failed), desc)
					}
				}
				grabbed = nil
			}
		}
	}
	cw.Count("failed_persist_rounds", failedRounds)
}

// tailCut: some in-flight snapshot is left with only its last few bytes missing.
func tailCut(d *mdisk, ch []tornChoice) bool {
	for i, f := range d.fly {
		if f.snp && i < len(ch) && ch[i].Kind == "prefix" && ch[i].Len >= len(f.bytes)-5 && ch[i].Len < len(f.bytes) {
			return true
		}
	}
	return false
}

// tinySnapshot: some in-flight snapshot is left with fewer than five bytes (shorter than its checksum trailer).
func tinySnapshot(d *mdisk, ch []tornChoice) bool {
	for i, f := range d.fly {
		if f.snp && i < len(ch) && ch[i].Kind == "prefix" && ch[i].Len >= 1 && ch[i].Len <= 4 {
			return true
		}
	}
	return false
}
