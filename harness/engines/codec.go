package engines

// codec — property C12.  Generated snapshot values are written with the real
// (*index.Snapshot).WriteTo (bytes compared with the model's `encode`), read back through the real
// loadSnapshot with the mmap and the file loader, and damaged in every way the property names
// (every truncation length, single-bit flips, appended tails, length fields set to 2^31 / 2^40 /
// 2^63 / 2^64-1 with and without a re-computed trailer, short files, random bytes).  Everything
// that decodes runs in a CHILD process (this binary re-executed as `codec-child`) under
// RLIMIT_AS and a timeout, so that a makeslice panic, a fault on an unmapped page or an
// out-of-memory abort is observed as a result class instead of killing the engine.

import (
	"bufio"
	"bytes"
	"encoding/binary"
	"encoding/hex"
	"encoding/json"
	"errors"
	"fmt"
	"hash/crc32"
	"io"
	"math/rand"
	"os"
	"os/exec"
	"path/filepath"
	"runtime"
	"runtime/debug"
	"sort"
	"strings"
	"sync/atomic"
	"syscall"
	"time"

	"github.com/RoaringBitmap/roaring"
	"github.com/blugelabs/bluge"
	"github.com/blugelabs/bluge/index"

	"verif/harness/cq"
)

func init() {
	Registry["codec"] = runCodec
	Registry["codec-child"] = runCodecChild
}

// ---------------------------------------------------------------- inputs as base + damage

type cSrc struct {
	Op    string `json:"op"` // base trunc flip append splice recrc bytes
	Base  int    `json:"base,omitempty"`
	N     int    `json:"n,omitempty"`
	I     int    `json:"i,omitempty"`
	J     int    `json:"j,omitempty"`
	Pos   int    `json:"pos,omitempty"`
	Del   int    `json:"del,omitempty"`
	Hex   string `json:"hex,omitempty"`
	Inner *cSrc  `json:"inner,omitempty"`
}

func (s *cSrc) apply(bases [][]byte) []byte {
	switch s.Op {
	case "base":
		return append([]byte(nil), bases[s.Base]...)
	case "bytes":
		b, _ := hex.DecodeString(s.Hex)
		return b
	}
	in := s.Inner.apply(bases)
	switch s.Op {
	case "trunc":
		if s.N > len(in) {
			return in
		}
		return in[:s.N]
	case "flip":
		if s.I < len(in) {
			in[s.I] ^= 1 << uint(s.J)
		}
		return in
	case "append":
		t, _ := hex.DecodeString(s.Hex)
		return append(in, t...)
	case "splice":
		ins, _ := hex.DecodeString(s.Hex)
		pos, end := s.Pos, s.Pos+s.Del
		if pos > len(in) {
			pos = len(in)
		}
		if end > len(in) {
			end = len(in)
		}
		out := append([]byte(nil), in[:pos]...)
		out = append(out, ins...)
		return append(out, in[end:]...)
	case "recrc":
		n := len(in) - 4
		if n < 0 {
			n = 0
		}
		p := append([]byte(nil), in[:n]...)
		var t [4]byte
		binary.BigEndian.PutUint32(t[:], crc32.ChecksumIEEE(p))
		return append(p, t[:]...)
	}
	panic("bad src op " + s.Op)
}

func (s *cSrc) coq() string {
	switch s.Op {
	case "base":
		return fmt.Sprintf("(SBytes F%d)", s.Base)
	case "bytes":
		b, _ := hex.DecodeString(s.Hex)
		return "(SBytes " + bigBytes(b) + ")"
	case "trunc":
		return fmt.Sprintf("(STrunc %s %d)", s.Inner.coq(), s.N)
	case "flip":
		return fmt.Sprintf("(SFlip %s %d %d)", s.Inner.coq(), s.I, s.J)
	case "append":
		b, _ := hex.DecodeString(s.Hex)
		return fmt.Sprintf("(SAppend %s %s)", s.Inner.coq(), bigBytes(b))
	case "splice":
		b, _ := hex.DecodeString(s.Hex)
		return fmt.Sprintf("(SSplice %s %d %d %s)", s.Inner.coq(), s.Pos, s.Del, cq.Bytes(b))
	case "recrc":
		return fmt.Sprintf("(SRecrc %s)", s.Inner.coq())
	}
	panic("bad src op")
}

func srcBase(k int) *cSrc { return &cSrc{Op: "base", Base: k} }

// packedBytes prints a byte list as unpack8 len [numerals of 8 bytes each] (Index/SnapshotCodecCorr.v)
func packedBytes(b []byte) string {
	if len(b) <= 64 {
		return cq.Bytes(b)
	}
	var nums []string
	for i := 0; i < len(b); i += 8 {
		var v uint64
		for j := 0; j < 8; j++ {
			v <<= 8
			if i+j < len(b) {
				v |= uint64(b[i+j])
			}
		}
		nums = append(nums, cq.U(v))
	}
	const chunk = 1500
	var parts []string
	for i := 0; i < len(nums); i += chunk {
		j := i + chunk
		if j > len(nums) {
			j = len(nums)
		}
		parts = append(parts, "["+strings.Join(nums[i:j], ";")+"]")
	}
	return fmt.Sprintf("(unpack8 %d (%s))", len(b), strings.Join(parts, " ++ "))
}

// bigBytes prints a byte list; long ones as a concatenation of chunks (Coq's parser overflows
// its stack on list literals of tens of thousands of elements).
func bigBytes(b []byte) string {
	const chunk = 1500
	if len(b) <= chunk {
		return cq.Bytes(b)
	}
	var parts []string
	for i := 0; i < len(b); i += chunk {
		j := i + chunk
		if j > len(b) {
			j = len(b)
		}
		parts = append(parts, cq.Bytes(b[i:j]))
	}
	return "(" + strings.Join(parts, " ++ ") + ")"
}

// ---------------------------------------------------------------- child protocol

type cInput struct {
	I    int    `json:"i"`
	Mode string `json:"mode"` // load | decode | dir
	Src  *cSrc  `json:"src,omitempty"`
	Dir  string `json:"dir,omitempty"` // mode dir: directory to open
}

type cSeg struct {
	ID  uint64 `json:"id"`
	Typ string `json:"typ"` // hex
	Ver uint32 `json:"ver"`
	Del string `json:"del"` // hex of the bitmap's own serialisation; "" = nil   (correspondence)
	Set string `json:"set"` // the deleted *set*: "" when nil or empty, else Del     (property oracle)
}

type cOne struct {
	Class string `json:"class"` // ok err panic
	Msg   string `json:"msg,omitempty"`
	Segs  []cSeg `json:"segs,omitempty"`
	Alloc uint64 `json:"alloc"`
	Epoch uint64 `json:"epoch,omitempty"`
	Count uint64 `json:"count,omitempty"`
}

type cResult struct {
	I    int  `json:"i"`
	MMap cOne `json:"mmap"` // load: mmap loader; decode: ReadFrom; dir: OpenReader with mmap
	File cOne `json:"file"` // load: file loader; dir: OpenReader with the file loader
	Wr   cOne `json:"wr"`   // dir: OpenWriter + Reader
}

func segsOf(vs []index.VerifCodecSeg) []cSeg {
	out := make([]cSeg, 0, len(vs))
	for _, v := range vs {
		d, set := "", ""
		if v.Deleted != nil {
			b, err := v.Deleted.ToBytes()
			if err != nil {
				panic(err)
			}
			d = hex.EncodeToString(b)
			if !v.Deleted.IsEmpty() {
				set = d
			}
		}
		out = append(out, cSeg{ID: v.ID, Typ: hex.EncodeToString([]byte(v.Type)), Ver: v.Version, Del: d, Set: set})
	}
	return out
}

func measured(f func() ([]cSeg, error)) (r cOne) {
	var m0, m1 runtime.MemStats
	runtime.ReadMemStats(&m0)
	defer func() {
		if p := recover(); p != nil {
			r.Class = "panic"
			r.Msg = fmt.Sprint(p)
		}
		runtime.ReadMemStats(&m1)
		r.Alloc = m1.TotalAlloc - m0.TotalAlloc
	}()
	segs, err := f()
	if err != nil {
		r.Class, r.Msg = "err", err.Error()
		if len(r.Msg) > 200 {
			r.Msg = r.Msg[:200]
		}
		return r
	}
	r.Class, r.Segs = "ok", segs
	return r
}

// pluginsNamed: the (type, version) pairs a lenient parse of the payload names, so that the stub
// plugins exist when the real loadSnapshot asks for them.
func pluginsNamed(b []byte) []index.VerifCodecSeg {
	var out []index.VerifCodecSeg
	for _, g := range refParse(b).segs {
		out = append(out, index.VerifCodecSeg{Type: string(g.typ), Version: g.ver})
	}
	return out
}

func childLoad(scratch string, b []byte, mmap bool) cOne {
	dir := filepath.Join(scratch, "ld")
	if err := os.MkdirAll(dir, 0o755); err != nil {
		panic(err)
	}
	d := index.NewFileSystemDirectory(dir)
	if !mmap {
		d.SetLoadMMapFunc(index.LoadMMapNever)
	}
	if err := os.WriteFile(filepath.Join(dir, index.VerifFileName(d, index.ItemKindSnapshot, 1)), b, 0o600); err != nil {
		panic(err)
	}
	var payload []byte
	if len(b) >= index.VerifCrcWidth {
		payload = b[:len(b)-index.VerifCrcWidth]
	}
	plugins := pluginsNamed(payload)
	validate := index.DefaultConfig(dir).ValidateSnapshotCRC // the default of the source under test
	return measured(func() ([]cSeg, error) {
		vs, err := index.VerifCodecLoadSnapshot(d, 1, validate, plugins)
		if err != nil {
			return nil, err
		}
		return segsOf(vs), nil
	})
}

func childDecode(b []byte) cOne {
	return measured(func() ([]cSeg, error) {
		s := index.VerifCodecNewSnapshot(1, nil)
		if _, err := s.ReadFrom(bytes.NewReader(b)); err != nil {
			return nil, err
		}
		return segsOf(index.VerifCodecSnapshotSegs(s)), nil
	})
}

func dirConfig(dir string, mmap bool) index.Config {
	return index.DefaultConfigWithDirectory(func() index.Directory {
		d := index.NewFileSystemDirectory(dir)
		if !mmap {
			d.SetLoadMMapFunc(index.LoadMMapNever)
		}
		return d
	})
}

func childOpenReader(dir string, mmap bool) cOne {
	var epoch, count uint64
	r := measured(func() ([]cSeg, error) {
		s, err := index.OpenReader(dirConfig(dir, mmap))
		if err != nil {
			return nil, err
		}
		defer s.Close()
		epoch = index.VerifCodecEpoch(s)
		count, err = s.Count()
		if err != nil {
			return nil, err
		}
		return segsOf(index.VerifCodecSnapshotSegs(s)), nil
	})
	r.Epoch, r.Count = epoch, count
	return r
}

func childOpenWriter(dir string) cOne {
	var epoch, count uint64
	r := measured(func() ([]cSeg, error) {
		cfg := dirConfig(dir, true)
		w, err := index.OpenWriter(cfg)
		if err != nil {
			return nil, err
		}
		defer w.Close()
		s, err := w.Reader()
		if err != nil {
			return nil, err
		}
		defer s.Close()
		epoch = index.VerifCodecEpoch(s)
		count, err = s.Count()
		if err != nil {
			return nil, err
		}
		return segsOf(index.VerifCodecSnapshotSegs(s)), nil
	})
	r.Epoch, r.Count = epoch, count
	return r
}

func copyDir(src, dst string) error {
	_ = os.RemoveAll(dst)
	if err := os.MkdirAll(dst, 0o755); err != nil {
		return err
	}
	ents, err := os.ReadDir(src)
	if err != nil {
		return err
	}
	for _, e := range ents {
		b, err := os.ReadFile(filepath.Join(src, e.Name()))
		if err != nil {
			return err
		}
		if err := os.WriteFile(filepath.Join(dst, e.Name()), b, 0o600); err != nil {
			return err
		}
	}
	return nil
}

// codec-child -out DIR bases.json inputs.jsonl start
func runCodecChild(o Opts) error {
	if len(o.Args) < 3 {
		return errors.New("usage: codec-child -out DIR bases.json inputs.jsonl start")
	}
	// address-space limit: a trusted length of 2^31.. must fail here, not take the machine down
	lim := uint64(3) << 30
	_ = syscall.Setrlimit(syscall.RLIMIT_AS, &syscall.Rlimit{Cur: lim, Max: lim})
	debug.SetGCPercent(50)
	var basesHex []string
	raw, err := os.ReadFile(o.Args[0])
	if err != nil {
		return err
	}
	if err := json.Unmarshal(raw, &basesHex); err != nil {
		return err
	}
	bases := make([][]byte, len(basesHex))
	for i, h := range basesHex {
		bases[i], _ = hex.DecodeString(h)
	}
	start := 0
	fmt.Sscanf(o.Args[2], "%d", &start)
	f, err := os.Open(o.Args[1])
	if err != nil {
		return err
	}
	defer f.Close()
	scratch := filepath.Join(o.Out, fmt.Sprintf("child%d", os.Getpid()))
	defer os.RemoveAll(scratch)
	out := bufio.NewWriter(os.Stdout)
	sc := bufio.NewScanner(f)
	sc.Buffer(make([]byte, 1<<22), 1<<26)
	n := 0
	for sc.Scan() {
		if n < start {
			n++
			continue
		}
		n++
		var in cInput
		if err := json.Unmarshal(sc.Bytes(), &in); err != nil {
			return err
		}
		res := cResult{I: in.I}
		// announce the input first: if the process dies the parent knows where
		fmt.Fprintf(out, "START %d\n", in.I)
		out.Flush()
		switch in.Mode {
		case "load":
			b := in.Src.apply(bases)
			res.MMap = childLoad(scratch, b, true)
			res.File = childLoad(scratch, b, false)
		case "decode":
			res.MMap = childDecode(in.Src.apply(bases))
		case "dir":
			work := filepath.Join(scratch, "dir")
			if err := copyDir(in.Dir, work); err != nil {
				return err
			}
			res.MMap = childOpenReader(work, true)
			res.File = childOpenReader(work, false)
			res.Wr = childOpenWriter(work)
		}
		js, _ := json.Marshal(res)
		out.Write(js)
		out.WriteByte('\n')
		out.Flush()
	}
	return sc.Err()
}

// runChildren feeds the inputs to child processes, restarting after each death.
// died[i] = class of the process death observed while input i was being handled.
func runChildren(o Opts, dir string, basesFile string, inputs []cInput) (map[int]cResult, map[int]string, map[int]string, error) {
	const par = 6
	if len(inputs) < 60*par {
		return runChildrenSeq(o, dir, basesFile, inputs)
	}
	type part struct {
		r    map[int]cResult
		d, m map[int]string
		err  error
	}
	ch := make(chan part, par)
	per := (len(inputs) + par - 1) / par
	n := 0
	for lo := 0; lo < len(inputs); lo += per {
		hi := lo + per
		if hi > len(inputs) {
			hi = len(inputs)
		}
		n++
		go func(sub []cInput) {
			r, d, m, err := runChildrenSeq(o, dir, basesFile, sub)
			ch <- part{r, d, m, err}
		}(inputs[lo:hi])
	}
	results, died, diedMsg := map[int]cResult{}, map[int]string{}, map[int]string{}
	var firstErr error
	for ; n > 0; n-- {
		p := <-ch
		if p.err != nil && firstErr == nil {
			firstErr = p.err
		}
		for k, v := range p.r {
			results[k] = v
		}
		for k, v := range p.d {
			died[k] = v
		}
		for k, v := range p.m {
			diedMsg[k] = v
		}
	}
	return results, died, diedMsg, firstErr
}

// codecDeaths counts child-process deaths in this engine run. Each death costs a process start;
// once there are this many the violation is established and the remaining inputs are skipped.
var codecDeaths int32

const codecMaxDeaths = 60

func runChildrenSeq(o Opts, dir string, basesFile string, inputs []cInput) (map[int]cResult, map[int]string, map[int]string, error) {
	if len(inputs) == 0 {
		return map[int]cResult{}, map[int]string{}, map[int]string{}, nil
	}
	inFile := filepath.Join(dir, fmt.Sprintf("inputs_%d.jsonl", inputs[0].I))
	f, err := os.Create(inFile)
	if err != nil {
		return nil, nil, nil, err
	}
	bw := bufio.NewWriter(f)
	for _, in := range inputs {
		js, _ := json.Marshal(in)
		bw.Write(js)
		bw.WriteByte('\n')
	}
	bw.Flush()
	f.Close()
	defer os.Remove(inFile)
	results := map[int]cResult{}
	died := map[int]string{}
	diedMsg := map[int]string{}
	start := 0
	for start < len(inputs) {
		if atomic.LoadInt32(&codecDeaths) >= codecMaxDeaths {
			break
		}
		cmd := exec.Command(os.Args[0], "codec-child", "-out", dir, basesFile, inFile, fmt.Sprint(start))
		var stderr bytes.Buffer
		cmd.Stderr = &stderr
		stdout, err := cmd.StdoutPipe()
		if err != nil {
			return nil, nil, nil, err
		}
		if err := cmd.Start(); err != nil {
			return nil, nil, nil, err
		}
		lines := make(chan string, 16)
		go func() {
			sc := bufio.NewScanner(stdout)
			sc.Buffer(make([]byte, 1<<22), 1<<28)
			for sc.Scan() {
				lines <- sc.Text()
			}
			close(lines)
		}()
		current := -1
		done := start
		hang := false
	loop:
		for {
			select {
			case l, ok := <-lines:
				if !ok {
					break loop
				}
				if strings.HasPrefix(l, "START ") {
					fmt.Sscanf(l, "START %d", &current)
					continue
				}
				var r cResult
				if err := json.Unmarshal([]byte(l), &r); err == nil {
					results[r.I] = r
					done++
					current = -1
				}
			case <-time.After(60 * time.Second):
				hang = true
				_ = cmd.Process.Kill()
				break loop
			}
		}
		werr := cmd.Wait()
		if done >= len(inputs) && werr == nil {
			break
		}
		// the child died (or hung) while handling inputs[done]
		if done >= len(inputs) {
			break
		}
		idx := inputs[done].I
		msg := stderr.String()
		class := "crash"
		switch {
		case hang:
			class = "hang"
		case strings.Contains(msg, "out of memory") || strings.Contains(msg, "cannot allocate memory"):
			class = "oom"
		case strings.Contains(msg, "SIGSEGV") || strings.Contains(msg, "SIGBUS") || strings.Contains(msg, "unexpected fault address") || strings.Contains(msg, "fatal error: fault"):
			class = "fault"
		case strings.Contains(msg, "panic:"):
			class = "panic"
		}
		if current != idx && current != -1 {
			return nil, nil, nil, fmt.Errorf("child protocol out of step: at %d, announced %d", idx, current)
		}
		if current == -1 && !hang && werr != nil && done == start && msg != "" && !strings.Contains(msg, "goroutine") {
			return nil, nil, nil, fmt.Errorf("child failed before handling anything: %v: %s", werr, msg)
		}
		died[idx] = class
		atomic.AddInt32(&codecDeaths, 1)
		if len(msg) > 600 {
			msg = msg[:600]
		}
		diedMsg[idx] = msg
		start = done + 1
	}
	return results, died, diedMsg, nil
}

// ---------------------------------------------------------------- reference structure of a file

type refSeg struct {
	typ              []byte
	ver              uint32
	id               uint64
	del              []byte
	offStrLen, offID int
	offDelLen        int
	offDel           int
	end              int
}

type refFile struct {
	ok          bool // the whole payload parsed
	offNum      int
	num         uint64
	segs        []refSeg
	blobs       [][]byte
	consumedEnd int
}

// refParse: a plain structural walk over a payload (no buffering subtleties); used only to know
// where fields and roaring blobs lie, never to decide an expected result.
func refParse(p []byte) refFile {
	var rf refFile
	uv := func(pos int) (uint64, int) {
		end := pos + binary.MaxVarintLen64
		if end > len(p) {
			end = len(p)
		}
		if pos > len(p) {
			return 0, 0
		}
		return binary.Uvarint(p[pos:end])
	}
	pos := 0
	v, n := uv(pos)
	if n < 0 || v != 1 {
		return rf
	}
	pos += n
	rf.offNum = pos
	num, n := uv(pos)
	if n < 0 {
		return rf
	}
	pos += n
	rf.num = num
	for j := 0; j < int(num); j++ {
		var g refSeg
		g.offStrLen = pos
		sl, n := uv(pos)
		if n < 0 {
			return rf
		}
		pos += n
		if sl > uint64(len(p)-pos) {
			return rf
		}
		g.typ = p[pos : pos+int(sl)]
		pos += int(sl)
		if pos+4 > len(p) {
			return rf
		}
		g.ver = binary.BigEndian.Uint32(p[pos:])
		pos += 4
		g.offID = pos
		id, n := uv(pos)
		if n < 0 {
			return rf
		}
		g.id = id
		pos += n
		g.offDelLen = pos
		dl, n := uv(pos)
		if n < 0 {
			return rf
		}
		pos += n
		g.offDel = pos
		if dl > 0 {
			if dl > uint64(len(p)-pos) {
				return rf
			}
			g.del = p[pos : pos+int(dl)]
			rf.blobs = append(rf.blobs, g.del)
			pos += int(dl)
		}
		g.end = pos
		rf.segs = append(rf.segs, g)
	}
	rf.ok = true
	rf.consumedEnd = pos
	return rf
}

// roaringAnswer = what the library does with a blob: error / empty / its own serialisation
func roaringAnswer(blob []byte) (ok bool, canon []byte) {
	defer func() {
		if recover() != nil {
			ok, canon = false, nil
		}
	}()
	bm := roaring.NewBitmap()
	if _, err := bm.ReadFrom(bytes.NewReader(blob)); err != nil {
		return false, nil
	}
	if bm.IsEmpty() {
		return true, nil
	}
	b, err := bm.ToBytes()
	if err != nil {
		return false, nil
	}
	return true, b
}

// ---------------------------------------------------------------- generation

type genSnap struct {
	segs  []index.VerifCodecSeg
	label string
}

func genBitmap(rng *rand.Rand, kind int) *roaring.Bitmap {
	bm := roaring.NewBitmap()
	switch kind {
	case 0:
		return nil
	case 1:
		bm.Add(uint32(rng.Intn(100)))
	case 2:
		for i := 0; i < 10; i++ {
			bm.Add(uint32(rng.Intn(1000)))
		}
	case 3:
		for i := 0; i < 1000; i++ {
			bm.Add(rng.Uint32() >> 12)
		}
	case 4: // runs
		bm.AddRange(uint64(rng.Intn(1000)), uint64(100000+rng.Intn(1000)))
		bm.RunOptimize()
	case 5: // dense bitmap container + sparse high values: crosses 4096 bytes
		for i := 0; i < 9000; i++ {
			bm.Add(uint32(rng.Intn(65536)))
		}
		bm.Add(1 << 31)
		bm.Add(1<<32 - 1)
	case 6: // large: many containers
		for i := 0; i < 700; i++ {
			bm.Add(rng.Uint32())
		}
	case 7: // non-nil but empty
	}
	return bm
}

func genSnapshots(o Opts, rng *rand.Rand) []genSnap {
	ids := []uint64{0, 1, 127, 128, 16383, 16384, 1 << 32, 1<<63 - 1, 1 << 63, 1<<64 - 1}
	id := func() uint64 {
		if rng.Intn(3) == 0 {
			return ids[rng.Intn(len(ids))]
		}
		return rng.Uint64() >> uint(rng.Intn(64))
	}
	mk := func(n int, typ func(int) string, bmKind func(int) int, label string) genSnap {
		g := genSnap{label: label}
		for i := 0; i < n; i++ {
			ver := uint32(1 + rng.Intn(2))
			switch rng.Intn(6) {
			case 0:
				ver = 0
			case 1:
				ver = 0xffffffff
			case 2:
				ver = rng.Uint32()
			}
			g.segs = append(g.segs, index.VerifCodecSeg{ID: id(), Type: typ(i), Version: ver, Deleted: genBitmap(rng, bmKind(i))})
		}
		return g
	}
	ice := func(int) string { return "ice" }
	var out []genSnap
	out = append(out, mk(0, ice, func(int) int { return 0 }, "empty"))
	out = append(out, mk(1, ice, func(int) int { return 0 }, "one segment, no deletions"))
	out = append(out, genSnap{label: "all id boundaries", segs: func() []index.VerifCodecSeg {
		var s []index.VerifCodecSeg
		for _, v := range ids {
			s = append(s, index.VerifCodecSeg{ID: v, Type: "ice", Version: 1})
		}
		return s
	}()})
	out = append(out, mk(2, ice, func(i int) int { return 1 + i }, "two segments, small bitmaps"))
	out = append(out, mk(3, func(i int) string { return []string{"", "a", "ab"}[i] }, func(i int) int { return 0 }, "type names of 0, 1, 2 characters"))
	out = append(out, genSnap{label: "last record shorter than ten bytes",
		segs: []index.VerifCodecSeg{{ID: 300, Type: "ice", Version: 1}, {ID: 1, Type: "ab", Version: 1}}})
	out = append(out, mk(4, func(i int) string { return []string{"abcdef", "abcdefghi", "ice", "segment-type-x"}[i] }, func(i int) int { return []int{0, 2, 7, 1}[i] },
		"longer type names, an empty non-nil bitmap"))
	out = append(out, mk(3, ice, func(i int) int { return []int{3, 0, 4}[i] }, "1000-entry bitmap and runs"))
	out = append(out, mk(2, ice, func(i int) int { return []int{5, 2}[i] }, "bitmap crossing the 4096-byte buffer"))
	out = append(out, mk(300, ice, func(i int) int { return 0 }, "300 segments (file crosses 4096 without bitmaps)"))
	out = append(out, mk(40, func(i int) string {
		if i%7 == 3 {
			return "abcdef"
		}
		return "ice"
	}, func(i int) int { return []int{0, 1, 2, 0, 2}[i%5] }, "40 mixed segments"))
	out = append(out, mk(1, func(int) string { return strings.Repeat("t", 5000) }, func(int) int { return 2 }, "5000-character type name"))
	// alignment sweep: 6-character type names with the file size stepping across the buffer boundary
	npad := 2
	if o.Thorough() {
		npad = 36
	}
	for pad := 0; pad < npad; pad++ {
		p := pad
		if !o.Thorough() {
			p = []int{24, 33}[pad] // these two sizes hit the buffer edge on the pinned decoder
		}
		bm := roaring.NewBitmap()
		for i := 0; i < 1990+p; i++ {
			bm.Add(uint32(i * 3))
		}
		g := genSnap{label: fmt.Sprintf("alignment sweep %d", p)}
		g.segs = append(g.segs, index.VerifCodecSeg{ID: 7, Type: "abcdef", Version: 0x01020304, Deleted: bm})
		for k := 0; k < 3; k++ {
			g.segs = append(g.segs, index.VerifCodecSeg{ID: uint64(100 + k), Type: "abcdef", Version: 0x0a0b0c0d})
		}
		out = append(out, g)
	}
	if o.Thorough() {
		out = append(out, mk(3, ice, func(i int) int { return []int{6, 5, 3}[i] }, "large bitmaps (tens of KB)"))
	} else {
		out = append(out, mk(2, ice, func(i int) int { return []int{6, 3}[i] }, "large bitmaps (about 10 KB)"))
	}
	nrand := 4
	if o.Thorough() {
		nrand = 60
	}
	for k := 0; k < nrand; k++ {
		n := rng.Intn(6)
		out = append(out, mk(n, func(int) string {
			if rng.Intn(4) == 0 {
				b := make([]byte, rng.Intn(12))
				rng.Read(b)
				return string(b)
			}
			return "ice"
		}, func(int) int { return rng.Intn(5) }, "random"))
	}
	return out
}

func uvarintBytes(v uint64) []byte {
	var b [binary.MaxVarintLen64]byte
	n := binary.PutUvarint(b[:], v)
	return b[:n]
}

// ---------------------------------------------------------------- the engine

const allocSlopBytes = 3 << 20 // constant part: bufio, config maps, roaring headers, error strings
const allocPerInputByte = 48

type cVariant struct {
	src      *cSrc
	mode     string
	kind     string
	base     int  // base file it was derived from (-1: none)
	damaged  bool // derived from a valid file without re-computing the trailer: must not load as another state
	baseless bool // only safety is demanded (garbage, or trailer re-computed over a damaged payload)
}

// codecCtx holds the base files (defined once in the shard prelude as F<k>).
type codecCtx struct {
	w     *cq.Writer
	bases [][]byte
	ans   map[string][2]interface{} // blob -> (ok bool, canon []byte)
}

func (c *codecCtx) addBase(b []byte) int {
	c.bases = append(c.bases, append([]byte(nil), b...))
	return len(c.bases) - 1
}

func (c *codecCtx) answer(blob []byte) (bool, []byte) {
	if a, ok := c.ans[string(blob)]; ok {
		return a[0].(bool), a[1].([]byte)
	}
	okr, canon := roaringAnswer(blob)
	c.ans[string(blob)] = [2]interface{}{okr, canon}
	return okr, canon
}

// bytesTerm names a byte string as a slice of a base file when it occurs in one (hint = base to
// look at first), else prints it.
func (c *codecCtx) bytesTerm(b []byte, hint int) string {
	if len(b) <= 48 {
		return cq.Bytes(b)
	}
	try := func(k int) string {
		if k < 0 || k >= len(c.bases) {
			return ""
		}
		if p := bytes.Index(c.bases[k], b); p >= 0 {
			return fmt.Sprintf("(zsub F%d %d %d)", k, p, len(b))
		}
		return ""
	}
	if t := try(hint); t != "" {
		return t
	}
	for k := range c.bases {
		if t := try(k); t != "" {
			return t
		}
	}
	return bigBytes(b)
}

func (c *codecCtx) segTerm(id uint64, typ []byte, ver uint32, del []byte, hint int) string {
	return fmt.Sprintf("{| sg_id := %s; sg_type := %s; sg_ver := %d; sg_del := %s |}", cq.U(id), c.bytesTerm(typ, hint), ver, c.bytesTerm(del, hint))
}

func (c *codecCtx) segsTerm(gs []cSeg, hint int) string {
	it := make([]string, len(gs))
	for i, g := range gs {
		typ, _ := hex.DecodeString(g.Typ)
		del, _ := hex.DecodeString(g.Del)
		it[i] = c.segTerm(g.ID, typ, g.Ver, del, hint)
	}
	return cq.List(it)
}

// table of roaring's answers for the blobs a structural walk of `payload` meets, keyed by position
func (c *codecCtx) table(payload []byte, hint int) string {
	rf := refParse(payload)
	var it []string
	seen := map[string]bool{}
	for _, g := range rf.segs {
		if len(g.del) == 0 || seen[string(g.del)] {
			continue
		}
		seen[string(g.del)] = true
		okr, canon := c.answer(g.del)
		a := "AErr"
		switch {
		case okr && len(canon) == 0:
			a = "AEmpty"
		case okr && bytes.Equal(canon, g.del):
			a = "ASame"
		case okr:
			a = "(ACanon " + c.bytesTerm(canon, hint) + ")"
		}
		it = append(it, fmt.Sprintf("(KSub %d %d, %s)", g.offDel, len(g.del), a))
	}
	return cq.List(it)
}

func pickInts(rng *rand.Rand, set map[int]bool, lo, hi, max int) []int {
	var l []int
	for n := range set {
		if n >= lo && n < hi {
			l = append(l, n)
		}
	}
	sort.Ints(l)
	if len(l) > max {
		rng.Shuffle(len(l), func(i, j int) { l[i], l[j] = l[j], l[i] })
		l = l[:max]
		sort.Ints(l)
	}
	return l
}

func runCodec(o Opts) error {
	rng := rand.New(rand.NewSource(o.Seed))
	verifDir := os.Getenv("VERIF_DIR")
	if verifDir == "" {
		verifDir = "/verif"
	}
	absOut, err := filepath.Abs(o.Out)
	if err != nil {
		return err
	}
	w := cq.New(o.Out, "", "ccase", 120)
	ctx := &codecCtx{w: w, ans: map[string][2]interface{}{}}
	scale := 1
	if o.Thorough() {
		scale = 10
	}

	// ---- 1. generated snapshots through the real WriteTo
	snaps := genSnapshots(o, rng)
	var baseSegs [][]cSeg // expected state of each base (deleted sets through roaring's own re-serialisation)
	var baseLabel []string
	for k, g := range snaps {
		s := index.VerifCodecNewSnapshot(uint64(k+1), g.segs)
		var buf bytes.Buffer
		fin, pan := cq.Guard(30*time.Second, func() {
			if _, err := s.WriteTo(&buf, nil); err != nil {
				panic(err)
			}
		})
		if !fin {
			w.Abort("writeto-hang", "Snapshot.WriteTo did not return", g.label)
		}
		if pan != nil {
			w.OracleFail("writeto-panic", fmt.Sprint(pan), g.label)
			continue
		}
		idx := ctx.addBase(buf.Bytes())
		var items []string
		var want []cSeg
		for _, sg := range g.segs {
			var del []byte
			e := cSeg{ID: sg.ID, Typ: hex.EncodeToString([]byte(sg.Type)), Ver: sg.Version}
			if sg.Deleted != nil {
				del, _ = sg.Deleted.ToBytes()
				// the deleted *set* is what must survive: compare through roaring's own re-serialisation
				okr, canon := ctx.answer(del)
				if !okr {
					w.OracleFail("roaring-rejects-own-bytes", "roaring cannot read back a bitmap it serialised", g.label)
				}
				e.Set = hex.EncodeToString(canon)
			}
			items = append(items, ctx.segTerm(sg.ID, []byte(sg.Type), sg.Version, del, idx))
			want = append(want, e)
		}
		baseSegs = append(baseSegs, want)
		baseLabel = append(baseLabel, g.label)
		w.Count("snapshot:"+g.label, 1)
		w.Count(fmt.Sprintf("file_size_bucket:%s", sizeBucket(buf.Len())), 1)
		w.Add(fmt.Sprintf("CEncode {| sn_segs := %s |} F%d", cq.List(items), idx), "encode", len(g.segs) > 0,
			map[string]interface{}{"snapshot": g.label, "segments": len(g.segs), "file_len": buf.Len()})
	}
	nGen := len(ctx.bases)

	// ---- 2. inputs: intact files and damaged variants
	var vars []cVariant
	addv := func(v cVariant) { vars = append(vars, v) }
	for k := 0; k < nGen; k++ {
		b := ctx.bases[k]
		addv(cVariant{src: srcBase(k), mode: "load", kind: "intact", base: k})
		payload := b[:len(b)-4]
		addv(cVariant{src: &cSrc{Op: "trunc", N: len(payload), Inner: srcBase(k)}, mode: "decode", kind: "intact-payload", base: k, baseless: true})
		rf := refParse(payload)
		// per-file quotas by size: the Coq side costs about 20 microseconds per input byte
		qTrunc, qFlip, qGarb, qCut, qSites := 1<<30, 1<<30, 4, 16, 4
		switch {
		case len(b) <= 64:
		case len(b) <= 700:
			qFlip = 120 * scale
			if !o.Thorough() && len(b) > 200 {
				qTrunc = 150
			}
		case len(b) <= 9000:
			qTrunc, qFlip, qGarb, qCut, qSites = 24*scale, 24*scale, 2, 5*scale, 3
		default:
			qTrunc, qFlip, qGarb, qCut, qSites = 10*scale, 10*scale, 2, 3*scale, 2
		}
		if o.Thorough() {
			qGarb, qSites = 8, 7
		}
		// truncations: every length, or the boundary set
		truncs := map[int]bool{}
		if qTrunc >= len(b) {
			for n := 0; n < len(b); n++ {
				truncs[n] = true
			}
		} else {
			for n := 0; n < 8; n++ {
				truncs[n] = true
				truncs[len(b)-1-n] = true
			}
			for gi, g := range rf.segs {
				if gi < 2 || gi == len(rf.segs)-1 {
					for _, off := range []int{g.offStrLen, g.offID, g.offDelLen, g.offDel, g.end} {
						for d := -1; d <= 2; d++ {
							truncs[off+d] = true
						}
					}
				}
			}
			for d := -3; d <= 3; d++ {
				truncs[4096+d] = true
				truncs[4096+4+d] = true
				truncs[8192+d] = true
			}
			for i := 0; i < qTrunc; i++ {
				truncs[rng.Intn(len(b))] = true
			}
		}
		for _, n := range pickInts(rng, truncs, 0, len(b), qTrunc) {
			addv(cVariant{src: &cSrc{Op: "trunc", N: n, Inner: srcBase(k)}, mode: "load", kind: "truncation", base: k, damaged: true})
		}
		// single-bit flips: every bit, or header + trailer + length fields + a sample
		flips := map[int]bool{} // i*8+j
		if qFlip >= 8*len(b) {
			for x := 0; x < 8*len(b); x++ {
				flips[x] = true
			}
		} else {
			must := map[int]bool{}
			for i := 0; i < 3 && i < len(b); i++ {
				for j := 0; j < 8; j++ {
					must[i*8+j] = true
				}
			}
			for j := 0; j < 8; j++ {
				must[(len(b)-1)*8+j] = true
				must[(len(b)-4)*8+j] = true
			}
			for gi, g := range rf.segs {
				if gi == 0 || gi == len(rf.segs)-1 {
					for _, off := range []int{g.offStrLen, g.offDelLen} {
						for j := 0; j < 8; j++ {
							must[off*8+j] = true
						}
					}
				}
			}
			for x := range must {
				flips[x] = true
			}
			for len(flips) < qFlip {
				flips[rng.Intn(8*len(b))] = true
			}
		}
		for _, x := range pickInts(rng, flips, 0, 8*len(b), qFlip) {
			addv(cVariant{src: &cSrc{Op: "flip", I: x / 8, J: x % 8, Inner: srcBase(k)}, mode: "load", kind: "bitflip", base: k, damaged: true})
		}
		// appended tails
		tails := []int{1, 4, 100}
		if len(b) < 700 || o.Thorough() {
			tails = []int{1, 2, 4, 7, 100, 5000}
		}
		for _, tn := range tails {
			t := make([]byte, tn)
			switch rng.Intn(3) {
			case 0:
				rng.Read(t)
			case 1:
				for i := range t {
					t[i] = 0xff
				}
			}
			addv(cVariant{src: &cSrc{Op: "append", Hex: hex.EncodeToString(t), Inner: srcBase(k)}, mode: "load", kind: "tail", base: k, damaged: true})
		}
		addv(cVariant{src: &cSrc{Op: "append", Hex: hex.EncodeToString(b[len(b)-4:]), Inner: srcBase(k)}, mode: "load", kind: "tail", base: k, damaged: true})
		// structured garbage: a length/count/id field replaced by a huge value
		type site struct {
			off  int
			name string
		}
		sites := []site{{rf.offNum, "numSegments"}}
		for gi, g := range rf.segs {
			if gi == 0 || gi == len(rf.segs)-1 {
				sites = append(sites, site{g.offStrLen, "strLen"}, site{g.offDelLen, "delLen"}, site{g.offID, "id"})
			}
		}
		huge := []uint64{1 << 31, 1 << 63, 1<<64 - 1, 1 << 40, 1<<63 - 1, uint64(len(b)), 4097, 100000}
		if qGarb < len(huge) {
			rng.Shuffle(len(huge)-3, func(i, j int) { huge[3+i], huge[3+j] = huge[3+j], huge[3+i] })
			huge = huge[:qGarb]
		}
		if len(sites) > qSites {
			sites = sites[:qSites]
		}
		for _, st := range sites {
			_, oldn := binary.Uvarint(payload[st.off:])
			if oldn <= 0 {
				continue
			}
			for _, hv := range huge {
				ins := uvarintBytes(hv)
				sp := &cSrc{Op: "splice", Pos: st.off, Del: oldn, Hex: hex.EncodeToString(ins), Inner: srcBase(k)}
				addv(cVariant{src: sp, mode: "load", kind: "garbage:" + st.name, base: k, damaged: true})
				addv(cVariant{src: &cSrc{Op: "recrc", Inner: sp}, mode: "load", kind: "garbage+crc:" + st.name, base: k, baseless: true})
			}
			// an over-long varint (11 continuation bytes)
			sp := &cSrc{Op: "splice", Pos: st.off, Del: oldn, Hex: strings.Repeat("ff", 11), Inner: srcBase(k)}
			addv(cVariant{src: &cSrc{Op: "recrc", Inner: sp}, mode: "load", kind: "garbage+crc:overlong-" + st.name, base: k, baseless: true})
		}
		// payload cuts with a correct trailer (the checksum no longer shields the decoder)
		cuts := map[int]bool{}
		for n := 0; n <= len(payload) && n < 24; n++ {
			cuts[n] = true
		}
		for gi, g := range rf.segs {
			if gi < 2 || gi == len(rf.segs)-1 {
				for _, off := range []int{g.offStrLen, g.offID, g.offDelLen, g.offDel} {
					for d := 0; d <= 2; d++ {
						cuts[off+d] = true
					}
				}
			}
		}
		for _, n := range pickInts(rng, cuts, 0, len(payload)+1, qCut) {
			sp := &cSrc{Op: "append", Hex: "00000000", Inner: &cSrc{Op: "trunc", N: n, Inner: srcBase(k)}}
			addv(cVariant{src: &cSrc{Op: "recrc", Inner: sp}, mode: "load", kind: "cut+crc", base: k, baseless: true})
			addv(cVariant{src: &cSrc{Op: "trunc", N: n, Inner: srcBase(k)}, mode: "decode", kind: "decode-cut", base: k, baseless: true})
		}
	}
	// short files and random bytes
	var shorts [][]byte
	shorts = append(shorts, []byte{}, []byte{1}, []byte{1, 0}, []byte{0, 0, 0, 0}, []byte{1, 0, 0, 0}, []byte{1, 0, 0, 0, 0})
	{
		var t [4]byte
		binary.BigEndian.PutUint32(t[:], crc32.ChecksumIEEE([]byte{1}))
		shorts = append(shorts, append([]byte{1}, t[:]...)) // 5 bytes: the version alone + its correct CRC
		binary.BigEndian.PutUint32(t[:], crc32.ChecksumIEEE(nil))
		shorts = append(shorts, t[:])
	}
	for i := 0; i < 80*scale; i++ {
		b := make([]byte, rng.Intn(12))
		if i%3 == 0 {
			b = make([]byte, rng.Intn(300))
		}
		rng.Read(b)
		if len(b) > 0 && i%2 == 0 {
			b[0] = 1
		}
		if len(b) > 1 && i%4 == 0 {
			b[1] = byte(rng.Intn(4))
		}
		shorts = append(shorts, b)
	}
	for _, b := range shorts {
		sb := &cSrc{Op: "bytes", Hex: hex.EncodeToString(b)}
		addv(cVariant{src: sb, mode: "load", kind: "short-or-random", base: -1, baseless: true})
		if len(b) >= 4 {
			addv(cVariant{src: &cSrc{Op: "recrc", Inner: sb}, mode: "load", kind: "random+crc", base: -1, baseless: true})
		}
		addv(cVariant{src: sb, mode: "decode", kind: "decode-random", base: -1, baseless: true})
	}

	// ---- 3. run them in child processes
	work := filepath.Join(absOut, "codec")
	if !strings.HasPrefix(absOut, verifDir) {
		work = filepath.Join(verifDir, "work", "C12", "codec")
	}
	_ = os.RemoveAll(work)
	if err := os.MkdirAll(work, 0o755); err != nil {
		return err
	}
	defer os.RemoveAll(work)
	writeBases := func() (string, error) {
		basesHex := make([]string, len(ctx.bases))
		for i, b := range ctx.bases {
			basesHex[i] = hex.EncodeToString(b)
		}
		basesFile := filepath.Join(work, "bases.json")
		js, _ := json.Marshal(basesHex)
		return basesFile, os.WriteFile(basesFile, js, 0o644)
	}
	basesFile, err := writeBases()
	if err != nil {
		return err
	}
	inputs := make([]cInput, len(vars))
	for i, v := range vars {
		inputs[i] = cInput{I: i, Mode: v.mode, Src: v.src}
	}
	t0 := time.Now()
	results, died, diedMsg, err := runChildren(o, work, basesFile, inputs)
	if err != nil {
		return err
	}
	w.Count("wall_ms:children", int(time.Since(t0).Milliseconds()))

	// ---- 4. judge and emit
	sameSegs := func(a, b []cSeg) bool {
		if len(a) != len(b) {
			return false
		}
		for i := range a {
			if a[i].ID != b[i].ID || a[i].Typ != b[i].Typ || a[i].Ver != b[i].Ver || a[i].Set != b[i].Set {
				return false
			}
		}
		return true
	}
	obsTerm := func(r cOne, hint int) string {
		switch r.Class {
		case "ok":
			return "(OOk " + ctx.segsTerm(r.Segs, hint) + ")"
		case "err":
			return "OErr"
		default:
			return "OPanic"
		}
	}
	for i, v := range vars {
		b := v.src.apply(ctx.bases)
		desc := map[string]interface{}{"damage": v.kind, "mode": v.mode, "src": v.src, "len": len(b)}
		if v.base >= 0 {
			desc["base_snapshot"] = baseLabel[v.base]
		}
		if len(b) <= 64 {
			desc["bytes"] = hex.EncodeToString(b)
		}
		w.Count("damage:"+strings.SplitN(v.kind, ":", 2)[0], 1)
		w.OracleEval(1)
		if class, dead := died[i]; dead {
			w.OracleFail("codec-"+class, fmt.Sprintf("loading this input killed the process (%s): %s", class, diedMsg[i]), desc)
			continue
		}
		r, ok := results[i]
		if !ok {
			if atomic.LoadInt32(&codecDeaths) >= codecMaxDeaths {
				w.Count("skipped_after_many_process_deaths", 1)
			} else {
				w.OracleFail("codec-no-result", "no result for this input", desc)
			}
			continue
		}
		outs := []cOne{r.MMap}
		names := []string{"mmap loader"}
		if v.mode == "load" {
			outs = append(outs, r.File)
			names = append(names, "file loader")
		} else {
			names[0] = "ReadFrom"
		}
		for oi, one := range outs {
			if one.Class == "panic" {
				w.OracleFail("codec-panic", names[oi]+" panicked: "+one.Msg, desc)
			}
			limit := uint64(allocSlopBytes + allocPerInputByte*len(b))
			if int(one.Alloc) > w.Stats["max_alloc_bytes_one_load"] {
				w.Stats["max_alloc_bytes_one_load"] = int(one.Alloc)
				w.Stats["max_alloc_input_len"] = len(b)
			}
			if one.Alloc > limit {
				w.OracleFail("codec-alloc", fmt.Sprintf("%s allocated %d bytes for a %d-byte input (limit %d)", names[oi], one.Alloc, len(b), limit), desc)
			}
			switch {
			case v.kind == "intact":
				if one.Class != "ok" || !sameSegs(one.Segs, baseSegs[v.base]) {
					w.OracleFail("codec-roundtrip", fmt.Sprintf("%s: a written snapshot does not read back as the same state (%s %s)", names[oi], one.Class, one.Msg), desc)
				}
			case v.damaged && !bytes.Equal(b, ctx.bases[v.base]):
				if one.Class == "ok" {
					if sameSegs(one.Segs, baseSegs[v.base]) {
						w.Count("accepted_damaged_as_same_state(crc coincidence)", 1)
					} else {
						w.OracleFail("codec-accepted-other-state", names[oi]+": a damaged file was accepted as a different state", desc)
					}
				}
			}
		}
		if v.mode == "load" && (r.MMap.Class != r.File.Class || !sameSegs(r.MMap.Segs, r.File.Segs)) {
			w.OracleFail("codec-loaders-disagree", fmt.Sprintf("mmap loader: %s %s; file loader: %s %s", r.MMap.Class, r.MMap.Msg, r.File.Class, r.File.Msg), desc)
		}
		w.Count("result:"+r.MMap.Class, 1)
		var payload []byte
		if v.mode == "decode" {
			payload = b
		} else if len(b) >= 4 {
			payload = b[:len(b)-4]
		}
		ctor := "CLoad"
		if v.mode == "decode" {
			ctor = "CDecode"
		}
		desc["observed"] = r.MMap.Class
		desc["msg"] = r.MMap.Msg
		w.Add(fmt.Sprintf("%s %s %s %s", ctor, v.src.coq(), ctx.table(payload, v.base), obsTerm(r.MMap, v.base)), v.mode+":"+strings.SplitN(v.kind, ":", 2)[0],
			len(b) > 6, desc)
	}

	// ---- 5. crc32 / uvarint of the standard library against the model
	for i := 0; i < 60; i++ {
		n := []int{0, 1, 2, 3, 4, 7, 8, 9, 15, 16, 17, 63, 64, 65, 255, 256, 1000, 4096, 5000}[i%19]
		p := make([]byte, n)
		rng.Read(p)
		if i%5 == 0 {
			for j := range p {
				p[j] = 0
			}
		}
		c := crc32.Update(0, crc32.IEEETable, p)
		w.Add(fmt.Sprintf("CCrc (SBytes %s) %d", bigBytes(p), c), "crc", n > 0, map[string]interface{}{"len": n})
		if n > 0 {
			i2, j2 := rng.Intn(n), rng.Intn(8)
			q := append([]byte(nil), p...)
			q[i2] ^= 1 << uint(j2)
			c2 := crc32.ChecksumIEEE(q)
			w.OracleEval(1)
			if c2 == c {
				w.OracleFail("crc-single-bit", "a single-bit flip left crc32 unchanged", hex.EncodeToString(p))
			}
			w.Add(fmt.Sprintf("CCrc (SFlip (SBytes %s) %d %d) %d", bigBytes(p), i2, j2, c2), "crc", true, map[string]interface{}{"len": n, "flip": []int{i2, j2}})
		}
	}
	uvals := []uint64{0, 1, 127, 128, 255, 256, 16383, 16384, 1<<21 - 1, 1 << 21, 1 << 28, 1 << 31, 1 << 32, 1 << 35, 1 << 42, 1 << 49, 1 << 56, 1<<63 - 1, 1 << 63, 1<<64 - 1}
	for i := 0; i < 40; i++ {
		uvals = append(uvals, rng.Uint64()>>uint(rng.Intn(64)))
	}
	for _, v := range uvals {
		enc := uvarintBytes(v)
		w.Add(fmt.Sprintf("CPutUvarint %s %s", cq.U(v), cq.Bytes(enc)), "putuvarint", v > 0, map[string]interface{}{"v": v})
		for _, tail := range [][]byte{nil, {0}, {0xff, 0xff, 1}} {
			buf := append(append([]byte(nil), enc...), tail...)
			if len(buf) > 10 {
				buf = buf[:10]
			}
			dv, dn := binary.Uvarint(buf)
			w.Add(fmt.Sprintf("CUvarint %s %s %s", cq.Bytes(buf), cq.U(dv), cq.I(dn)), "uvarint", true, map[string]interface{}{"buf": hex.EncodeToString(buf)})
		}
		if len(enc) > 1 { // short buffer
			buf := enc[:len(enc)-1]
			dv, dn := binary.Uvarint(buf)
			w.Add(fmt.Sprintf("CUvarint %s %s %s", cq.Bytes(buf), cq.U(dv), cq.I(dn)), "uvarint", true, map[string]interface{}{"buf": hex.EncodeToString(buf)})
		}
	}
	for i := 0; i < 120; i++ {
		buf := make([]byte, rng.Intn(12))
		rng.Read(buf)
		if i%2 == 0 {
			for j := range buf {
				buf[j] |= 0x80
			}
			if len(buf) > 0 && i%4 == 0 {
				buf[len(buf)-1] &= 0x7f
			}
		}
		dv, dn := binary.Uvarint(buf)
		w.Add(fmt.Sprintf("CUvarint %s %s %s", cq.Bytes(buf), cq.U(dv), cq.I(dn)), "uvarint", true, map[string]interface{}{"buf": hex.EncodeToString(buf)})
	}

	// ---- 6. fallback on a real index: one intact and one damaged snapshot
	t1 := time.Now()
	if err := codecFallback(o, ctx, work); err != nil {
		return err
	}
	w.Count("wall_ms:fallback", int(time.Since(t1).Milliseconds()))

	// ---- the base files: compiled once (Bases.vo in the output directory), imported by every shard
	var pre strings.Builder
	pre.WriteString("From Coq Require Import ZArith List. Import ListNotations. Open Scope Z_scope.\n")
	pre.WriteString("From Bluge Require Import Index.SnapshotCodecCorr.\n")
	total := 0
	for k, b := range ctx.bases {
		fmt.Fprintf(&pre, "Definition F%d : list Z := Eval vm_compute in %s.\n", k, packedBytes(b))
		total += len(b)
	}
	w.Count("base_files", len(ctx.bases))
	w.Count("base_files_total_bytes", total)
	if err := os.WriteFile(filepath.Join(o.Out, "Bases.v"), []byte(pre.String()), 0o644); err != nil {
		return err
	}
	t2 := time.Now()
	cmd := exec.Command("coqc", "-w", "none", "-Q", filepath.Join(verifDir, "coq"), "Bluge", "Bases.v")
	cmd.Dir = o.Out
	if outb, err := cmd.CombinedOutput(); err != nil {
		return fmt.Errorf("coqc Bases.v: %v: %s", err, outb)
	}
	w.Count("wall_ms:bases_vo", int(time.Since(t2).Milliseconds()))
	w.Imports = "Require Import Bases.\nFrom Bluge Require Import Base.Res Base.Bufio Index.SnapshotCodec Index.SnapshotCodecCorr."
	w.Close()
	return nil
}

func sizeBucket(n int) string {
	switch {
	case n < 16:
		return "<16"
	case n < 256:
		return "<256"
	case n < 4096:
		return "<4096"
	case n < 8192:
		return "4096..8191"
	default:
		return ">=8192"
	}
}

// codecFallback builds a real index (bluge writer), then gives its directory a second, damaged
// snapshot under the next epoch and opens it through OpenReader (both loaders) and OpenWriter.
func codecFallback(o Opts, ctx *codecCtx, work string) error {
	w := ctx.w
	idxDir := filepath.Join(work, "realindex")
	_ = os.RemoveAll(idxDir)
	bw, err := bluge.OpenWriter(bluge.DefaultConfig(idxDir))
	if err != nil {
		return err
	}
	for bno := 0; bno < 3; bno++ {
		batch := bluge.NewBatch()
		for i := 0; i < 20; i++ {
			id := fmt.Sprintf("doc-%d-%d", bno, i)
			batch.Update(bluge.Identifier(id), bluge.NewDocument(id).AddField(bluge.NewTextField("body", fmt.Sprintf("hello world %d %d", bno, i))))
		}
		if bno > 0 {
			batch.Delete(bluge.Identifier(fmt.Sprintf("doc-%d-%d", bno-1, 3)))
			batch.Delete(bluge.Identifier(fmt.Sprintf("doc-%d-%d", bno-1, 7)))
		}
		if err := bw.Batch(batch); err != nil {
			return err
		}
	}
	if err := bw.Close(); err != nil {
		return err
	}
	d := index.NewFileSystemDirectory(idxDir)
	epochs, err := d.List(index.ItemKindSnapshot)
	if err != nil || len(epochs) == 0 {
		return fmt.Errorf("no snapshot in the real index: %v", err)
	}
	e0 := epochs[0]
	name := func(e uint64) string { return filepath.Join(idxDir, index.VerifFileName(d, index.ItemKindSnapshot, e)) }
	good, err := os.ReadFile(name(e0))
	if err != nil {
		return err
	}
	for _, e := range epochs[1:] { // keep exactly one intact snapshot
		_ = os.Remove(name(e))
	}
	rf := refParse(good[:len(good)-4])
	if !rf.ok {
		return errors.New("reference walk cannot read a snapshot written by the index")
	}
	gk := ctx.addBase(good)
	var tbl []string
	for _, g := range rf.segs {
		if len(g.del) == 0 {
			continue
		}
		okr, canon := ctx.answer(g.del)
		if !okr {
			return errors.New("roaring rejects a bitmap written by the index")
		}
		a := "ASame"
		if !bytes.Equal(canon, g.del) {
			a = "(ACanon " + cq.Bytes(canon) + ")"
		}
		tbl = append(tbl, fmt.Sprintf("(KBytes (zsub F%d %d %d), %s)", gk, g.offDel, len(g.del), a))
	}
	w.Count(fmt.Sprintf("real_index:segments=%d,deleted_bitmaps=%d,snapshot_len=%d", len(rf.segs), len(tbl), len(good)), 1)
	type dmg struct {
		name string
		mk   func() []byte // nil = no second snapshot
	}
	flipAt := func(i int) func() []byte {
		return func() []byte { b := append([]byte(nil), good...); b[i] ^= 0x10; return b }
	}
	dmgs := []dmg{
		{"no damaged snapshot (control)", nil},
		{"copy with the last byte changed", flipAt(len(good) - 1)},
		{"copy with the first byte changed", flipAt(0)},
		{"copy with a byte of the middle changed", flipAt(len(good) / 2)},
		{"copy cut to half", func() []byte { return append([]byte(nil), good[:len(good)/2]...) }},
		{"copy cut by one byte", func() []byte { return append([]byte(nil), good[:len(good)-1]...) }},
		{"empty file", func() []byte { return []byte{} }},
		{"three bytes", func() []byte { return []byte{1, 1, 3} }},
		{"copy with one byte appended", func() []byte { return append(append([]byte(nil), good...), 0) }},
	}
	if len(rf.segs) > 0 {
		g := rf.segs[0]
		_, oldn := binary.Uvarint(good[g.offDelLen:])
		for _, hv := range []uint64{1<<63 - 1, 1 << 31, 1 << 40} {
			v := hv
			dmgs = append(dmgs, dmg{fmt.Sprintf("copy with the first deleted-length set to %d", v), func() []byte {
				out := append([]byte(nil), good[:g.offDelLen]...)
				out = append(out, uvarintBytes(v)...)
				return append(out, good[g.offDelLen+oldn:]...)
			}})
		}
		_, olds := binary.Uvarint(good[g.offStrLen:])
		dmgs = append(dmgs, dmg{"copy with the first type length set to 2^63", func() []byte {
			out := append([]byte(nil), good[:g.offStrLen]...)
			out = append(out, uvarintBytes(1<<63)...)
			return append(out, good[g.offStrLen+olds:]...)
		}})
	}
	var inputs []cInput
	var damagedBytes [][]byte
	for k, dm := range dmgs {
		dir := filepath.Join(work, fmt.Sprintf("fb%d", k))
		if err := copyDir(idxDir, dir); err != nil {
			return err
		}
		var db []byte
		if dm.mk != nil {
			db = dm.mk()
			if err := os.WriteFile(filepath.Join(dir, index.VerifFileName(d, index.ItemKindSnapshot, e0+1)), db, 0o600); err != nil {
				return err
			}
		}
		damagedBytes = append(damagedBytes, db)
		inputs = append(inputs, cInput{I: k, Mode: "dir", Dir: dir})
	}
	// only a damaged snapshot: no fallback possible, an error (not a crash) is demanded
	onlyBad := filepath.Join(work, "fbonly")
	if err := copyDir(idxDir, onlyBad); err != nil {
		return err
	}
	bad := append([]byte(nil), good...)
	bad[len(bad)-1] ^= 1
	if err := os.WriteFile(filepath.Join(onlyBad, index.VerifFileName(d, index.ItemKindSnapshot, e0)), bad, 0o600); err != nil {
		return err
	}
	inputs = append(inputs, cInput{I: len(dmgs), Mode: "dir", Dir: onlyBad})

	results, died, diedMsg, err := runChildren(o, work, filepath.Join(work, "bases.json"), inputs)
	if err != nil {
		return err
	}
	var control cOne
	for k := range inputs {
		desc := map[string]interface{}{"scenario": "directory with snapshot " + fmt.Sprint(e0) + " intact", "damaged_newer_snapshot": "none"}
		if k < len(dmgs) {
			desc["damaged_newer_snapshot"] = dmgs[k].name
		} else {
			desc["scenario"] = "the only snapshot has its last byte changed"
		}
		w.OracleEval(1)
		w.Count("fallback_scenarios", 1)
		if class, dead := died[k]; dead {
			w.OracleFail("fallback-"+class, fmt.Sprintf("opening the directory killed the process (%s): %s", class, diedMsg[k]), desc)
			continue
		}
		r, ok := results[k]
		if !ok {
			if atomic.LoadInt32(&codecDeaths) >= codecMaxDeaths {
				w.Count("skipped_after_many_process_deaths", 1)
			} else {
				w.OracleFail("fallback-no-result", "no result", desc)
			}
			continue
		}
		if k == 0 {
			control = r.MMap
		}
		opens := []cOne{r.MMap, r.File, r.Wr}
		names := []string{"OpenReader (mmap)", "OpenReader (file loader)", "OpenWriter"}
		for oi, one := range opens {
			if one.Class == "panic" {
				w.OracleFail("fallback-panic", names[oi]+" panicked: "+one.Msg, desc)
				continue
			}
			if k == len(dmgs) { // nothing intact: an error is the right answer
				if one.Class == "ok" {
					w.OracleFail("fallback-accepted-damaged", names[oi]+" opened a directory whose only snapshot is damaged", desc)
				}
				continue
			}
			if one.Class != "ok" {
				w.OracleFail("fallback-missing", fmt.Sprintf("%s failed although an intact older snapshot exists: %s", names[oi], one.Msg), desc)
				continue
			}
			if one.Count != control.Count || len(one.Segs) != len(control.Segs) {
				w.OracleFail("fallback-wrong-state", fmt.Sprintf("%s opened %d documents in %d segments, the intact snapshot has %d in %d", names[oi], one.Count, len(one.Segs), control.Count, len(control.Segs)), desc)
			}
		}
		if k < len(dmgs) && r.MMap.Class == "ok" {
			// model: files in descending epoch order
			files := fmt.Sprintf("(%s, SBytes F%d)", cq.U(e0), gk)
			if damagedBytes[k] != nil {
				files = fmt.Sprintf("(%s, SBytes %s); ", cq.U(e0+1), ctx.bytesTerm(damagedBytes[k], gk)) + files
			}
			w.Add(fmt.Sprintf("CLoadDir [%s] %s (Some (%s, %s))", files, cq.List(tbl), cq.U(r.MMap.Epoch), ctx.segsTerm(r.MMap.Segs, gk)), "fallback", true, desc)
		}
	}
	return nil
}

var _ = io.EOF
