package engines

// bm25 engine, second end-to-end family (property C17): how statistics reach the scorer when the
// index has more structure than one batch of plain text fields —
//   (A) a composite field (`_all`) consuming the other fields of each document: the term
//       frequencies / field lengths of the consumed fields must be the ones of their own text
//       (metamorphic: the same corpus indexed without the composite field scores identically);
//   (B) a sparse field and pending deletions / updates: every explanation has N >= n, n is the
//       number of live documents containing the term, N lies between the live and the inserted
//       documents having the field, the idf law holds across the terms of the field, and deleting
//       documents that do not have the field leaves the field's scores unchanged.

import (
	"fmt"
	"math"
	"math/rand"
	"strings"

	"github.com/blugelabs/bluge"
	"github.com/blugelabs/bluge/search"

	"verif/harness/cq"
)

type bm25StructDoc struct {
	id     string
	fields map[string][]string
}

func (d *bm25StructDoc) count(field, term string) int {
	n := 0
	for _, t := range d.fields[field] {
		if t == term {
			n++
		}
	}
	return n
}

// bm25TermLeaves reads (n, N, freq, dl, k1, b, avgdl) off a term-score explanation node.
type bm25Leaves struct {
	n, N, freq, dl float64
	idf            float64
	ok             bool
}

func bm25ReadLeaves(e *search.Explanation) bm25Leaves {
	var l bm25Leaves
	if e == nil || !strings.HasPrefix(e.Message, "score(freq=") {
		return l
	}
	for _, c := range e.Children {
		switch bm25ChildName(c.Message) {
		case "idf":
			if len(c.Children) == 2 {
				l.n, l.N, l.idf = c.Children[0].Value, c.Children[1].Value, c.Value
			}
		case "tf":
			if len(c.Children) == 5 {
				l.freq, l.dl = c.Children[0].Value, c.Children[3].Value
				l.ok = true
			}
		}
	}
	return l
}

func bm25StructIndex(docs []*bm25StructDoc, fieldOrder []string, composite bool) (*bluge.Writer, error) {
	wr, err := bluge.OpenWriter(bluge.InMemoryOnlyConfig())
	if err != nil {
		return nil, err
	}
	batch := bluge.NewBatch()
	for _, d := range docs {
		bd := bluge.NewDocument(d.id)
		for _, f := range fieldOrder {
			if toks, ok := d.fields[f]; ok && len(toks) > 0 {
				bd.AddField(bluge.NewTextField(f, strings.Join(toks, " ")))
			}
		}
		if composite {
			bd.AddField(bluge.NewCompositeFieldExcluding("_all", []string{"_id"}))
		}
		batch.Update(bluge.Identifier(d.id), bd)
	}
	if err := wr.Batch(batch); err != nil {
		wr.Close()
		return nil, err
	}
	return wr, nil
}

func bm25Structure(o Opts, rng *rand.Rand, w *cq.Writer, scale int) error {
	vocab := []string{"red", "green", "blue", "cyan", "pink"}
	weights := []int{12, 6, 3, 2, 1}
	total := 0
	for _, x := range weights {
		total += x
	}
	pick := func() string {
		r := rng.Intn(total)
		for i, x := range weights {
			if r < x {
				return vocab[i]
			}
			r -= x
		}
		return vocab[0]
	}
	toks := func(n int) []string {
		out := make([]string, n)
		for i := range out {
			out[i] = pick()
		}
		return out
	}
	for round := 0; round < 2*scale; round++ {
		if err := bm25StructComposite(rng, w, vocab, toks); err != nil {
			return err
		}
		if err := bm25StructDeletions(rng, w, vocab, toks); err != nil {
			return err
		}
	}
	return nil
}

// ---- (A) composite field
func bm25StructComposite(rng *rand.Rand, w *cq.Writer, vocab []string, toks func(int) []string) error {
	nd := 10 + rng.Intn(8)
	fields := []string{"title", "body", "note"}
	docs := make([]*bm25StructDoc, nd)
	for i := range docs {
		d := &bm25StructDoc{id: fmt.Sprintf("c%d", i), fields: map[string][]string{}}
		d.fields["title"] = toks(1 + rng.Intn(3))
		d.fields["body"] = toks(2 + rng.Intn(8))
		if rng.Intn(2) == 0 {
			d.fields["note"] = toks(1 + rng.Intn(4))
		}
		docs[i] = d
	}
	// pairs with equal lengths and one more occurrence in the title
	if nd >= 2 {
		docs[1].fields["title"] = append([]string{}, docs[0].fields["title"]...)
		docs[1].fields["title"][0] = "red"
		docs[0].fields["title"][0] = "green"
		if len(docs[0].fields["title"]) > 1 {
			docs[0].fields["title"][1] = "red"
			docs[1].fields["title"][1] = "red"
		}
		docs[0].fields["body"] = append(docs[0].fields["body"], "red", "red", "red")
	}
	plainW, err := bm25StructIndex(docs, fields, false)
	if err != nil {
		return err
	}
	defer plainW.Close()
	allW, err := bm25StructIndex(docs, fields, true)
	if err != nil {
		return err
	}
	defer allW.Close()
	plainR, err := plainW.Reader()
	if err != nil {
		return err
	}
	defer plainR.Close()
	allR, err := allW.Reader()
	if err != nil {
		return err
	}
	defer allR.Close()
	w.Count("struct_composite_rounds", 1)
	for _, f := range fields {
		st := &bm25CollStats{}
		df := map[string]uint64{}
		for _, d := range docs {
			if len(d.fields[f]) > 0 {
				st.docCount++
				st.sumTTF += uint64(len(d.fields[f]))
				for _, t := range vocab {
					if d.count(f, t) > 0 {
						df[t]++
					}
				}
			}
		}
		for _, t := range vocab {
			desc := map[string]interface{}{"scenario": "composite", "field": f, "term": t}
			q := func() bluge.Query { return bluge.NewTermQuery(t).SetField(f) }
			plain, err := bm25E2eSearch(w, plainR, q(), false, desc)
			if err != nil {
				return err
			}
			withAll, err := bm25E2eSearch(w, allR, q(), false, desc)
			if err != nil {
				return err
			}
			expl, err := bm25E2eSearch(w, allR, q(), true, desc)
			if err != nil {
				return err
			}
			if plain == nil || withAll == nil || expl == nil {
				continue
			}
			emitted := 0
			type lh struct {
				freq, dl int
				score    float64
				id       string
			}
			var hits []lh
			for _, d := range docs {
				want := d.count(f, t) > 0
				hp, okp := plain[d.id]
				ha, oka := withAll[d.id]
				w.OracleEval(1)
				if okp != want || oka != want {
					bm25Fail(w, "e2e-term-match-set", fmt.Sprintf("doc %s: contains term=%v, matched without composite=%v, with=%v", d.id, want, okp, oka), desc)
					continue
				}
				if !want {
					continue
				}
				meta := map[string]interface{}{"scenario": "composite", "field": f, "term": t, "doc": d.id, "freq": d.count(f, t), "dl": len(d.fields[f]),
					"score_without_composite": hp.score, "score_with_composite": ha.score}
				// metamorphic: the composite field must not change what is indexed for the fields it consumes
				w.OracleEval(1)
				if math.Float64bits(hp.score) != math.Float64bits(ha.score) {
					bm25Fail(w, "e2e-composite-field-changes-score", fmt.Sprintf("term query on %s scores %v without the composite field and %v with it", f, hp.score, ha.score), meta)
				}
				hits = append(hits, lh{d.count(f, t), len(d.fields[f]), ha.score, d.id})
				he, ok := expl[d.id]
				w.OracleEval(1)
				if !ok || he.expl == nil {
					bm25Fail(w, "e2e-explain-missing", "hit without explanation when ExplainScores is set", meta)
					continue
				}
				if math.Float64bits(he.expl.Value) != math.Float64bits(ha.score) {
					bm25Fail(w, "explain-root-not-score", fmt.Sprintf("explanation value %v, score %v", he.expl.Value, ha.score), meta)
				}
				bm25CheckTree(w, he.expl, meta)
				l := bm25ReadLeaves(he.expl)
				w.OracleEval(1)
				if !l.ok || l.freq != float64(d.count(f, t)) || l.dl != float64(len(d.fields[f])) || l.n != float64(df[t]) || l.N != float64(st.docCount) {
					bm25Fail(w, "e2e-explain-leaf-statistics", fmt.Sprintf("explanation leaves freq=%v dl=%v n=%v N=%v, the field's own text gives freq=%d dl=%d n=%d N=%d",
						l.freq, l.dl, l.n, l.N, d.count(f, t), len(d.fields[f]), df[t], st.docCount), meta)
				}
				if emitted < 2 || rng.Intn(6) == 0 {
					emitted++
					p := bm25ScoreParams{k1: 1.2, b: 0.75, boost: 1, st: st, n: df[t]}
					bm25Add(w, fmt.Sprintf("CE2E %s %s %d %d %s", p.coq(), p.logs().coq(), d.count(f, t), len(d.fields[f]), bm25Fb(ha.score)), "e2e-composite-term", true, meta)
				}
			}
			// more occurrences -> higher, longer -> lower, among the hits of this query
			for i := range hits {
				for j := range hits {
					a, c := hits[i], hits[j]
					if a.dl == c.dl && a.freq < c.freq {
						w.OracleEval(1)
						if !(c.score > a.score) {
							bm25Fail(w, "law-mono-freq", fmt.Sprintf("%s has %d occurrences and scores %v, %s has %d and scores %v (equal field length %d)", a.id, a.freq, a.score, c.id, c.freq, c.score, a.dl), desc)
						}
					}
					if a.freq == c.freq && a.dl < c.dl {
						w.OracleEval(1)
						if !(c.score < a.score) {
							bm25Fail(w, "law-anti-len", fmt.Sprintf("%s has field length %d and scores %v, %s has %d and scores %v", a.id, a.dl, a.score, c.id, c.dl, c.score), desc)
						}
					}
				}
			}
		}
	}
	// the composite field itself: frequency = occurrences in all consumed fields
	for _, t := range vocab {
		desc := map[string]interface{}{"scenario": "composite", "field": "_all", "term": t}
		plain, err := bm25E2eSearch(w, allR, bluge.NewTermQuery(t).SetField("_all"), false, desc)
		if err != nil {
			return err
		}
		expl, err := bm25E2eSearch(w, allR, bluge.NewTermQuery(t).SetField("_all"), true, desc)
		if err != nil {
			return err
		}
		if plain == nil || expl == nil {
			continue
		}
		for _, d := range docs {
			tot := 0
			for _, f := range fields {
				tot += d.count(f, t)
			}
			h, ok := plain[d.id]
			w.OracleEval(1)
			if ok != (tot > 0) {
				bm25Fail(w, "e2e-term-match-set", fmt.Sprintf("doc %s: %d occurrences in the consumed fields, matched on the composite field=%v", d.id, tot, ok), desc)
				continue
			}
			if !ok {
				continue
			}
			he := expl[d.id]
			meta := map[string]interface{}{"scenario": "composite", "field": "_all", "term": t, "doc": d.id}
			w.OracleEval(2)
			if he.expl == nil || math.Float64bits(he.expl.Value) != math.Float64bits(h.score) {
				bm25Fail(w, "explain-root-not-score", "composite field: explanation value differs from the score", meta)
				continue
			}
			bm25CheckTree(w, he.expl, meta)
			if l := bm25ReadLeaves(he.expl); !l.ok || l.freq != float64(tot) {
				bm25Fail(w, "e2e-explain-leaf-statistics", fmt.Sprintf("composite field: freq leaf %v, occurrences in the consumed fields %d", l.freq, tot), meta)
			}
		}
	}
	return nil
}

// ---- (B) sparse field, pending deletions and updates
func bm25StructDeletions(rng *rand.Rand, w *cq.Writer, vocab []string, toks func(int) []string) error {
	nd := 12 + rng.Intn(8)
	docs := make([]*bm25StructDoc, nd)
	for i := range docs {
		d := &bm25StructDoc{id: fmt.Sprintf("s%d", i), fields: map[string][]string{}}
		d.fields["body"] = toks(2 + rng.Intn(6))
		if i < 3 || rng.Intn(3) == 0 { // sparse field
			d.fields["tag"] = append([]string{"red"}, toks(rng.Intn(3))...)
			if i == 2 {
				d.fields["tag"] = []string{"blue", "green"}
			}
		}
		docs[i] = d
	}
	wr, err := bm25StructIndex(docs, []string{"tag", "body"}, false)
	if err != nil {
		return err
	}
	defer wr.Close()
	w.Count("struct_deletion_rounds", 1)
	inserted := map[string]uint64{}
	insertedTTF := map[string]uint64{}
	for _, d := range docs {
		for f, t := range d.fields {
			if len(t) > 0 {
				inserted[f]++
				insertedTTF[f] += uint64(len(t))
			}
		}
	}
	live := map[string]bool{}
	for _, d := range docs {
		live[d.id] = true
	}
	type snap struct {
		name   string
		scores map[string]map[string]float64 // term -> doc -> score (field tag)
		merged bool
	}
	observe := func(name string) (*snap, error) {
		rd, err := wr.Reader()
		if err != nil {
			return nil, err
		}
		defer rd.Close()
		s := &snap{name: name, scores: map[string]map[string]float64{}}
		type idfObs struct {
			n   float64
			idf float64
		}
		for _, f := range []string{"tag", "body"} {
			var liveWith uint64
			for _, d := range docs {
				if live[d.id] && len(d.fields[f]) > 0 {
					liveWith++
				}
			}
			var idfs []idfObs
			for _, t := range vocab {
				desc := map[string]interface{}{"scenario": "deletions", "state": name, "field": f, "term": t}
				plain, err := bm25E2eSearch(w, rd, bluge.NewTermQuery(t).SetField(f), false, desc)
				if err != nil {
					return nil, err
				}
				expl, err := bm25E2eSearch(w, rd, bluge.NewTermQuery(t).SetField(f), true, desc)
				if err != nil {
					return nil, err
				}
				if plain == nil || expl == nil {
					continue
				}
				var n uint64
				for _, d := range docs {
					want := live[d.id] && d.count(f, t) > 0
					if want {
						n++
					}
					_, got := plain[d.id]
					w.OracleEval(1)
					if got != want {
						bm25Fail(w, "e2e-term-match-set", fmt.Sprintf("doc %s: live and contains term=%v, matched=%v", d.id, want, got), desc)
					}
				}
				if f == "tag" {
					s.scores[t] = map[string]float64{}
				}
				first := true
				for id, h := range plain {
					meta := map[string]interface{}{"scenario": "deletions", "state": name, "field": f, "term": t, "doc": id, "score": h.score}
					if f == "tag" {
						s.scores[t][id] = h.score
					}
					w.OracleEval(1)
					if !(h.score > 0) || math.IsInf(h.score, 0) || math.IsNaN(h.score) {
						bm25Fail(w, "law-score-positive-finite", fmt.Sprintf("score %v", h.score), meta)
					}
					he, ok := expl[id]
					w.OracleEval(1)
					if !ok || he.expl == nil || math.Float64bits(he.expl.Value) != math.Float64bits(h.score) {
						bm25Fail(w, "explain-root-not-score", "explanation missing or its value differs from the score", meta)
						continue
					}
					bm25CheckTree(w, he.expl, meta)
					l := bm25ReadLeaves(he.expl)
					if !l.ok {
						continue
					}
					w.OracleEval(3)
					if l.N < l.n {
						bm25Fail(w, "e2e-idf-N-below-n", fmt.Sprintf("explanation has N=%v documents with the field but n=%v documents containing the term", l.N, l.n), meta)
					}
					if l.n != float64(n) {
						bm25Fail(w, "e2e-explain-leaf-statistics", fmt.Sprintf("explanation has n=%v, %d live documents contain the term", l.n, n), meta)
					}
					if l.N < float64(liveWith) || l.N > float64(inserted[f]) {
						bm25Fail(w, "e2e-explain-leaf-statistics", fmt.Sprintf("explanation has N=%v; %d live documents have the field, %d were ever inserted with it", l.N, liveWith, inserted[f]), meta)
					}
					if f == "body" && l.N < float64(inserted["body"]) {
						s.merged = true // deleted documents were merged away: collection statistics may have been rewritten
					}
					if first {
						first = false
						idfs = append(idfs, idfObs{l.n, l.idf})
						// score from the statistics the unchanged code defines: documents and tokens of the
						// field in the segments, deleted-but-unmerged ones included; n = live postings
						if !s.merged && l.N == float64(inserted[f]) {
							var d0 *bm25StructDoc
							for _, d := range docs {
								if d.id == id {
									d0 = d
								}
							}
							p := bm25ScoreParams{k1: 1.2, b: 0.75, boost: 1, st: &bm25CollStats{sumTTF: insertedTTF[f], docCount: inserted[f]}, n: n}
							bm25Add(w, fmt.Sprintf("CE2E %s %s %d %d %s", p.coq(), p.logs().coq(), d0.count(f, t), len(d0.fields[f]), bm25Fb(h.score)), "e2e-deletions-term", true, meta)
						}
					}
				}
			}
			// rarer term weighs more, across the terms of this field
			for _, a := range idfs {
				for _, c := range idfs {
					if a.n < c.n {
						w.OracleEval(1)
						if !(a.idf > c.idf) {
							bm25Fail(w, "law-idf-anti-df", fmt.Sprintf("field %s (%s): a term in %v documents weighs %v, a term in %v documents weighs %v", f, name, a.n, a.idf, c.n, c.idf),
								map[string]interface{}{"scenario": "deletions", "state": name, "field": f})
						}
					}
				}
			}
		}
		return s, nil
	}
	s0, err := observe("initial")
	if err != nil {
		return err
	}
	// delete documents that do not have the sparse field (all of them, or a random half)
	batch := bluge.NewBatch()
	half := rng.Intn(2) == 0
	for _, d := range docs {
		if len(d.fields["tag"]) == 0 && (!half || rng.Intn(2) == 0) {
			batch.Delete(bluge.Identifier(d.id))
			live[d.id] = false
		}
	}
	if err := wr.Batch(batch); err != nil {
		return err
	}
	s1, err := observe("others-deleted")
	if err != nil {
		return err
	}
	// metamorphic: deleting documents that do not have the field leaves the field's scores unchanged
	if s1.merged {
		w.Count("struct_deletion_merged_skipped", 1)
	} else {
		for t, m := range s0.scores {
			for id, sc := range m {
				w.OracleEval(1)
				if sc1, ok := s1.scores[t][id]; !ok || math.Float64bits(sc1) != math.Float64bits(sc) {
					bm25Fail(w, "e2e-delete-other-docs-changes-score", fmt.Sprintf("tag:%s scores %v for %s; after deleting documents without the field it scores %v", t, sc, id, sc1),
						map[string]interface{}{"scenario": "deletions", "term": t, "doc": id})
				}
			}
		}
	}
	// update one document that has the field (new text), delete another one
	batch = bluge.NewBatch()
	for i, d := range docs[:2] {
		if i == 0 {
			d.fields["tag"] = []string{"green", "green", "red"}
			bd := bluge.NewDocument(d.id).AddField(bluge.NewTextField("tag", strings.Join(d.fields["tag"], " "))).
				AddField(bluge.NewTextField("body", strings.Join(d.fields["body"], " ")))
			batch.Update(bluge.Identifier(d.id), bd)
			inserted["tag"]++
			inserted["body"]++
			insertedTTF["tag"] += uint64(len(d.fields["tag"]))
			insertedTTF["body"] += uint64(len(d.fields["body"]))
		} else {
			batch.Delete(bluge.Identifier(d.id))
			live[d.id] = false
		}
	}
	if err := wr.Batch(batch); err != nil {
		return err
	}
	if _, err := observe("updated-and-deleted"); err != nil {
		return err
	}
	return nil
}
