package engines

// Engine `layout` (C08): the same logical corpus built by different recipes (batch
// partitionings, forced merges, close + reopen on a file-system directory, Reader.Backup +
// OpenReader, OfflineWriter, in-memory, segment version 1/2, DisableOptimize* switches,
// scoring "none", k indexes under MultiSearch with a field sort); every build is compared with
// the single oracle answer of the `search` engine's evaluator (match set, stored fields,
// field-sort order, aggregations); scores are compared bit for bit between the builds that
// contain neither merged segments nor pending deletions.  Correspondence cases for
// Search/LayoutCorr.v carry the observed layouts of all builds of a corpus.

import (
	"context"
	"fmt"
	"math"
	"math/rand"
	"os"
	"path/filepath"
	"sort"
	"strconv"
	"strings"
	"time"

	"github.com/blugelabs/bluge"
	"github.com/blugelabs/bluge/search"
	"github.com/blugelabs/bluge/search/aggregations"

	"verif/harness/cq"
)

func init() { Registry["layout"] = runLayout }

type lxBuild struct {
	name      string
	merging   bool // merging was not switched off: the build may contain merged segments
	offline   int  // > 0: number of batches the offline writer merged
	deletes   bool // pending deletions possible (history replayed instead of the live set)
	scoreNone bool
	optOff    string
	multi     bool
	borrowed  bool // the readers belong to another build (same index searched with other options)
	readers   []*bluge.Reader
	closers   []func()
	lays      []*sxALayout
}

func (b *lxBuild) close() {
	if b.borrowed {
		return
	}
	for _, r := range b.readers {
		_ = r.Close()
	}
	for i := len(b.closers) - 1; i >= 0; i-- {
		b.closers[i]()
	}
}

// scoreComparable: neither merged segments nor pending deletions, one index, default scoring
func (b *lxBuild) scoreComparable() bool {
	return !b.merging && b.offline <= 1 && !b.deletes && !b.scoreNone && !b.multi
}

type layoutRun struct {
	o    Opts
	rng  *rand.Rand
	w    *cq.Writer
	root string
	nDir int
	mergeMax int
}

func runLayout(o Opts) error {
	r := &layoutRun{o: o, rng: rand.New(rand.NewSource(o.Seed))}
	r.w = cq.New(o.Out, "From Bluge Require Import Base.Res Search.Postings Search.Searchers Search.Semantics Search.SearchCorr Search.Layout Search.LayoutCorr.", "lcase", 1)
	r.root = filepath.Join(o.Out, "idx") // under /verif/work/<id>
	if err := os.MkdirAll(r.root, 0o755); err != nil {
		return err
	}
	defer os.RemoveAll(r.root)
	nCorpora, nQueries := 7, 22
	if o.Thorough() {
		nCorpora, nQueries = 50, 40
	}
	if err := r.emptyProbes(); err != nil {
		return err
	}
	// the offline writer merges runs of mergeMax segments: corpora sized around that fan-in (one
	// document per batch gives as many batches as documents)
	mergeMax := 10
	{
		dir := r.dir()
		if ow, err := bluge.OpenOfflineWriter(bluge.DefaultConfig(dir), 1, 2); err == nil {
			mergeMax = ow.VerifMergeMax()
			_ = ow.Insert(bluge.NewDocument("x")) // an offline writer without documents cannot be closed (known finding)
			_ = ow.Close()
		}
		_ = os.RemoveAll(dir)
	}
	r.mergeMax = mergeMax
	for ci := 0; ci < nCorpora; ci++ {
		nDocs := 3 + r.rng.Intn(9)
		switch {
		case ci == 1:
			nDocs = mergeMax + 1 + r.rng.Intn(2) // fan-in + 1, + 2 live documents or a few less after deletions
		case ci == 2:
			nDocs = 2*mergeMax + 1 + r.rng.Intn(2)
		case ci == 3:
			nDocs = mergeMax - 1 + r.rng.Intn(4)
		case o.Thorough() && ci == 4:
			nDocs = mergeMax*mergeMax + 1 + r.rng.Intn(mergeMax)
		}
		withDeletes := !(ci >= 1 && ci <= 4) || r.rng.Intn(2) == 0
		nSeg := 1 + r.rng.Intn(3)
		if !withDeletes {
			nSeg = 1 + r.rng.Intn(2)
		}
		c := sxGenCorpus(r.rng, nDocs, nSeg, withDeletes)
		if ci == 0 {
			// the logically empty index: two documents inserted, then both deleted
			c = sxGenCorpus(r.rng, 2, 1, false)
			c.Batches = append(c.Batches, []sOp{{Kind: 2, ID: 1}, {Kind: 2, ID: 2}})
			c.Live = map[int]*sVersion{}
		}
		if ci%2 == 1 {
			shareKeyword(r.rng, c)
		}
		if err := r.corpus(ci, c, nQueries); err != nil {
			return err
		}
	}
	r.w.OracleEval(1)
	if r.w.Stats["layered_file_merge_reached"] == 0 {
		r.w.OracleFail("merged-layout-not-reached", "the file merger never produced the merged first segment of the layered builds (harness, not a property violation): merged-then-fresh layouts by the file merger went unchecked",
			map[string]interface{}{"seed": o.Seed})
	}
	r.w.Close()
	return nil
}

// shareKeyword gives about half of the document versions one common keyword, so that the
// layered builds can put exactly one of its documents into the merged segment.
func shareKeyword(rng *rand.Rand, c *sCorpus) {
	k := sKwPool[rng.Intn(len(sKwPool))]
	for _, v := range c.Versions {
		if rng.Intn(2) == 0 {
			v.HasKw, v.Kw = true, k
			v.analyse()
		}
	}
}

// layeredSplit: the live documents split into the part that goes into the merged segment (2-4
// documents, exactly one of them with the most frequent keyword when at least three documents
// carry it) and the rest (the fresh segments behind it).
func layeredSplit(rng *rand.Rand, c *sCorpus) (first, rest []sOp) {
	ids := c.liveIDs()
	cnt := map[string]int{}
	for _, id := range ids {
		if v := c.Live[id]; v.HasKw {
			cnt[v.Kw]++
		}
	}
	best := ""
	for _, id := range ids {
		if v := c.Live[id]; v.HasKw && (best == "" || cnt[v.Kw] > cnt[best]) {
			best = v.Kw
		}
	}
	var with, without []int
	for _, id := range ids {
		if v := c.Live[id]; best != "" && v.HasKw && v.Kw == best {
			with = append(with, id)
		} else {
			without = append(without, id)
		}
	}
	rng.Shuffle(len(with), func(i, j int) { with[i], with[j] = with[j], with[i] })
	rng.Shuffle(len(without), func(i, j int) { without[i], without[j] = without[j], without[i] })
	var a []int
	if len(with) >= 3 {
		a = append(a, with[0])
		with = with[1:]
		n := 1 + rng.Intn(3)
		for n > 0 && len(without) > 0 {
			a = append(a, without[0])
			without = without[1:]
			n--
		}
	}
	pool := append(with, without...)
	rng.Shuffle(len(pool), func(i, j int) { pool[i], pool[j] = pool[j], pool[i] })
	for len(a) < 2 && len(pool) > 1 {
		a = append(a, pool[0])
		pool = pool[1:]
	}
	rng.Shuffle(len(a), func(i, j int) { a[i], a[j] = a[j], a[i] })
	for _, id := range a {
		first = append(first, sOp{Kind: 0, V: c.Live[id], ID: id})
	}
	for _, id := range pool {
		rest = append(rest, sOp{Kind: 0, V: c.Live[id], ID: id})
	}
	return first, rest
}

func splitBatches(rng *rand.Rand, ops []sOp) [][]sOp {
	if len(ops) >= 2 && rng.Intn(2) == 0 {
		cut := 1 + rng.Intn(len(ops)-1)
		return [][]sOp{ops[:cut], ops[cut:]}
	}
	return [][]sOp{ops}
}

func (r *layoutRun) dir() string {
	r.nDir++
	return filepath.Join(r.root, fmt.Sprintf("d%d", r.nDir))
}

// liveBatches: the live documents only, partitioned into batches by the given sizes
func liveBatches(c *sCorpus, sizes []int) [][]sOp {
	ids := c.liveIDs()
	var out [][]sOp
	i := 0
	for _, sz := range sizes {
		var b []sOp
		for k := 0; k < sz && i < len(ids); k++ {
			b = append(b, sOp{Kind: 0, V: c.Live[ids[i]], ID: ids[i]})
			i++
		}
		if len(b) > 0 {
			out = append(out, b)
		}
	}
	var rest []sOp
	for ; i < len(ids); i++ {
		rest = append(rest, sOp{Kind: 0, V: c.Live[ids[i]], ID: ids[i]})
	}
	if len(rest) > 0 {
		out = append(out, rest)
	}
	return out
}

func randomSizes(rng *rand.Rand, n int) []int {
	var out []int
	for n > 0 {
		k := 1 + rng.Intn(n)
		if rng.Intn(3) == 0 {
			k = 1
		}
		out = append(out, k)
		n -= k
	}
	return out
}

func mergingConfig(cfg bluge.Config) bluge.Config {
	ic := cfg.VerifIndexConfig()
	ic.MergePlanOptions.MaxSegmentsPerTier = 1
	ic.MergePlanOptions.SegmentsPerMergeTask = 2
	ic.MergePlanOptions.FloorSegmentSize = 1
	ic.MergePlanOptions.TierGrowth = 1.0
	ic.MinSegmentsForInMemoryMerge = 2
	return cfg.VerifWithIndexConfig(ic)
}

// waitSettled polls until the number of segments stopped changing (merges are asynchronous).
func waitSettled(w *bluge.Writer, target int) (*bluge.Reader, error) {
	deadline := time.Now().Add(3 * time.Second)
	last, stable := -1, 0
	for {
		rd, err := w.Reader()
		if err != nil {
			return nil, err
		}
		snap, err := sxSnapshotOf(rd)
		if err != nil {
			return nil, err
		}
		n := len(snap.Segments())
		if n == last {
			stable++
		} else {
			stable = 0
		}
		last = n
		if (n <= target && stable >= 2) || stable >= 12 || time.Now().After(deadline) {
			return rd, nil
		}
		_ = rd.Close()
		time.Sleep(15 * time.Millisecond)
	}
}

func (r *layoutRun) buildWriter(name string, cfg bluge.Config, batches [][]sOp, b *lxBuild) error {
	w, err := bluge.OpenWriter(cfg)
	if err != nil {
		return fmt.Errorf("%s: %w", name, err)
	}
	if err := sxApplyBatches(w, batches); err != nil {
		return fmt.Errorf("%s: %w", name, err)
	}
	var rd *bluge.Reader
	if b.merging {
		rd, err = waitSettled(w, 1)
	} else {
		rd, err = w.Reader()
	}
	if err != nil {
		return fmt.Errorf("%s: %w", name, err)
	}
	b.readers = append(b.readers, rd)
	b.closers = append(b.closers, func() { _ = w.Close() })
	return nil
}

func optOffConfig(cfg bluge.Config, which int) (bluge.Config, string) {
	var names []string
	if which&1 != 0 {
		cfg = cfg.DisableOptimizeConjunction()
		names = append(names, "conj")
	}
	if which&2 != 0 {
		cfg = cfg.DisableOptimizeConjunctionUnadorned()
		names = append(names, "conj-unadorned")
	}
	if which&4 != 0 {
		cfg = cfg.DisableOptimizeDisjunctionUnadorned()
		names = append(names, "disj-unadorned")
	}
	return cfg, strings.Join(names, "+")
}

func (r *layoutRun) builds(c *sCorpus) ([]*lxBuild, error) {
	var out []*lxBuild
	fail := func(err error) ([]*lxBuild, error) {
		for _, b := range out {
			b.close()
		}
		return nil, err
	}
	n := len(c.Live)
	add := func(b *lxBuild, err error) error {
		if err != nil {
			b.close()
			return err
		}
		out = append(out, b)
		return nil
	}
	memFree := func() bluge.Config { return sxMergeFreeConfig(bluge.InMemoryOnlyConfig()) }

	// 1. the history as generated (pending deletions), in memory, no merging
	b := &lxBuild{name: "mem-history", deletes: true}
	if err := add(b, r.buildWriter(b.name, memFree(), c.Batches, b)); err != nil {
		return fail(err)
	}
	// 2. the live set in one batch: the score baseline
	b = &lxBuild{name: "mem-live-one-batch"}
	if err := add(b, r.buildWriter(b.name, memFree(), liveBatches(c, []int{n}), b)); err != nil {
		return fail(err)
	}
	// 3. one document per batch
	ones := make([]int, n)
	for i := range ones {
		ones[i] = 1
	}
	b = &lxBuild{name: "mem-live-one-per-batch"}
	if err := add(b, r.buildWriter(b.name, memFree(), liveBatches(c, ones), b)); err != nil {
		return fail(err)
	}
	// 4. a random partition
	b = &lxBuild{name: "mem-live-random-partition"}
	if err := add(b, r.buildWriter(b.name, memFree(), liveBatches(c, randomSizes(r.rng, n)), b)); err != nil {
		return fail(err)
	}
	// 5. the history with forced merging
	b = &lxBuild{name: "mem-history-forced-merges", merging: true, deletes: true}
	if err := add(b, r.buildWriter(b.name, mergingConfig(bluge.InMemoryOnlyConfig()), c.Batches, b)); err != nil {
		return fail(err)
	}
	// 6. one per batch with forced merging
	b = &lxBuild{name: "mem-live-forced-merges", merging: true}
	if err := add(b, r.buildWriter(b.name, mergingConfig(bluge.InMemoryOnlyConfig()), liveBatches(c, ones), b)); err != nil {
		return fail(err)
	}
	// 7. file-system directory: write the history, close, reopen
	{
		dir := r.dir()
		cfg := sxMergeFreeConfig(bluge.DefaultConfig(dir))
		w, err := bluge.OpenWriter(cfg)
		if err != nil {
			return fail(err)
		}
		if err := sxApplyBatches(w, c.Batches); err != nil {
			return fail(err)
		}
		if err := w.Close(); err != nil {
			return fail(fmt.Errorf("fs close: %w", err))
		}
		b = &lxBuild{name: "fs-history-reopen", deletes: true}
		rd, err := bluge.OpenReader(cfg)
		if err != nil {
			return fail(fmt.Errorf("fs reopen: %w", err))
		}
		b.readers = append(b.readers, rd)
		out = append(out, b)
	}
	// 8. file-system directory, live set, Backup + OpenReader on the copy
	{
		dir, dir2 := r.dir(), r.dir()
		cfg := sxMergeFreeConfig(bluge.DefaultConfig(dir))
		w, err := bluge.OpenWriter(cfg)
		if err != nil {
			return fail(err)
		}
		if err := sxApplyBatches(w, liveBatches(c, randomSizes(r.rng, n))); err != nil {
			return fail(err)
		}
		rd, err := w.Reader()
		if err != nil {
			return fail(err)
		}
		if err := os.MkdirAll(dir2, 0o755); err != nil { // Backup does not create its target
			return fail(err)
		}
		if err := rd.Backup(dir2, nil); err != nil {
			return fail(fmt.Errorf("backup: %w", err))
		}
		_ = rd.Close()
		if err := w.Close(); err != nil {
			return fail(err)
		}
		b = &lxBuild{name: "fs-live-backup-restore"}
		rd2, err := bluge.OpenReader(sxMergeFreeConfig(bluge.DefaultConfig(dir2)))
		if err != nil {
			return fail(fmt.Errorf("open backup: %w", err))
		}
		b.readers = append(b.readers, rd2)
		out = append(out, b)
	}
	// 9. offline writer with some batch size (Insert flushes after batchSize+1 documents)
	if n > 0 {
		dir := r.dir()
		cfg := bluge.DefaultConfig(dir)
		bs := r.rng.Intn(n + 1)
		ow, err := bluge.OpenOfflineWriter(cfg, bs, 2+r.rng.Intn(3))
		if err != nil {
			return fail(err)
		}
		for _, id := range c.liveIDs() {
			if err := ow.Insert(c.Live[id].blugeDoc()); err != nil {
				return fail(err)
			}
		}
		if err := ow.Close(); err != nil {
			return fail(fmt.Errorf("offline close: %w", err))
		}
		nb := (n + bs) / (bs + 1)
		b = &lxBuild{name: fmt.Sprintf("offline-batch%d", bs), offline: nb}
		rd, err := bluge.OpenReader(cfg)
		if err != nil {
			return fail(fmt.Errorf("offline open: %w", err))
		}
		b.readers = append(b.readers, rd)
		out = append(out, b)
	}
	// 9b. offline writer with one document per batch, and with batch sizes that give batch counts
	// around the merge fan-in (mergeMax - 1 .. mergeMax + 2, 2 * mergeMax + 1)
	if n > 0 {
		sizes := []int{0}
		for _, want := range []int{r.mergeMax - 1, r.mergeMax, r.mergeMax + 1, r.mergeMax + 2, 2*r.mergeMax + 1} {
			if want >= 1 && want <= n {
				bs := n/want - 1 // Insert flushes after bs+1 documents
				if bs > 0 && (n+bs)/(bs+1) == want {
					sizes = append(sizes, bs)
				}
			}
		}
		seen := map[int]bool{}
		for _, bs := range sizes {
			if seen[bs] {
				continue
			}
			seen[bs] = true
			dir := r.dir()
			cfg := bluge.DefaultConfig(dir)
			ow, err := bluge.OpenOfflineWriter(cfg, bs, 2)
			if err != nil {
				return fail(err)
			}
			for _, id := range c.liveIDs() {
				if err := ow.Insert(c.Live[id].blugeDoc()); err != nil {
					return fail(err)
				}
			}
			if err := ow.Close(); err != nil {
				return fail(fmt.Errorf("offline close: %w", err))
			}
			nb := (n + bs) / (bs + 1)
			b = &lxBuild{name: fmt.Sprintf("offline-%d-batches", nb), offline: nb}
			rd, err := bluge.OpenReader(cfg)
			if err != nil {
				return fail(fmt.Errorf("offline open: %w", err))
			}
			b.readers = append(b.readers, rd)
			out = append(out, b)
			r.w.Count(fmt.Sprintf("offline_batches_%d", nb), 1)
		}
	}
	// 10. segment version 2
	b = &lxBuild{name: "mem-live-segment-v2"}
	if err := add(b, r.buildWriter(b.name, memFree().WithSegmentVersion(2), liveBatches(c, randomSizes(r.rng, n)), b)); err != nil {
		return fail(err)
	}
	// 11. optimisations switched off
	{
		cfg, names := optOffConfig(memFree(), 1+r.rng.Intn(7))
		b = &lxBuild{name: "mem-live-optimize-off:" + names, optOff: names}
		if err := add(b, r.buildWriter(b.name, cfg, liveBatches(c, randomSizes(r.rng, n)), b)); err != nil {
			return fail(err)
		}
		cfg2, names2 := optOffConfig(memFree(), 7)
		b = &lxBuild{name: "mem-live-optimize-off-score-none:" + names2, optOff: names2, scoreNone: true}
		if err := add(b, r.buildWriter(b.name, cfg2, liveBatches(c, randomSizes(r.rng, n)), b)); err != nil {
			return fail(err)
		}
	}
	// 12. scoring "none" (the unadorned rewrites are taken)
	b = &lxBuild{name: "mem-live-score-none", scoreNone: true}
	if err := add(b, r.buildWriter(b.name, memFree(), liveBatches(c, randomSizes(r.rng, n)), b)); err != nil {
		return fail(err)
	}
	// 13. the corpus partitioned over k indexes, searched with MultiSearch
	{
		k := 2 + r.rng.Intn(2)
		b = &lxBuild{name: fmt.Sprintf("multisearch-%d", k), multi: true}
		ids := c.liveIDs()
		parts := make([][]sOp, k)
		for _, id := range ids {
			p := r.rng.Intn(k)
			parts[p] = append(parts[p], sOp{Kind: 0, V: c.Live[id], ID: id})
		}
		for p := 0; p < k; p++ {
			var batches [][]sOp
			if len(parts[p]) > 0 {
				cut := r.rng.Intn(len(parts[p]) + 1)
				if cut > 0 {
					batches = append(batches, parts[p][:cut])
				}
				if cut < len(parts[p]) {
					batches = append(batches, parts[p][cut:])
				}
			}
			if err := r.buildWriter(b.name, memFree(), batches, b); err != nil {
				b.close()
				return fail(err)
			}
		}
		out = append(out, b)
	}
	// 14./15. layered indexes: a MERGED segment first, fresh unmerged segments behind it; each
	// searched with default scoring and with scoring "none" (the per-segment bitmap rewrites see
	// segments that encode their postings differently: the merger writes a term of a single
	// document as a 1-hit list, a fresh segment never does)
	if n >= 3 {
		twin := func(b *lxBuild) *lxBuild {
			return &lxBuild{name: b.name + "-score-none", merging: b.merging, offline: b.offline, scoreNone: true, borrowed: true, readers: b.readers}
		}
		// 14. offline writer (one batch per document, merged at Close), then a writer on the same directory
		{
			first, rest := layeredSplit(r.rng, c)
			dir := r.dir()
			ow, err := bluge.OpenOfflineWriter(bluge.DefaultConfig(dir), 0, 2+r.rng.Intn(3))
			if err != nil {
				return fail(err)
			}
			for _, op := range first {
				if err := ow.Insert(op.V.blugeDoc()); err != nil {
					return fail(err)
				}
			}
			if err := ow.Close(); err != nil {
				return fail(fmt.Errorf("layered offline close: %w", err))
			}
			b = &lxBuild{name: "fs-offline-merged-then-batches", offline: len(first), merging: true}
			if err := add(b, r.buildWriter(b.name, sxMergeFreeConfig(bluge.DefaultConfig(dir)), splitBatches(r.rng, rest), b)); err != nil {
				return fail(err)
			}
			out = append(out, twin(b))
		}
		// 15. the file merger merges the first batches; writer closed, reopened merge-free, then the rest
		{
			first, rest := layeredSplit(r.rng, c)
			dir := r.dir()
			w, err := bluge.OpenWriter(sxSmallMergeConfig(bluge.DefaultConfig(dir)))
			if err != nil {
				return fail(err)
			}
			var fb [][]sOp
			for _, op := range first {
				fb = append(fb, []sOp{op})
			}
			if err := sxApplyBatches(w, fb); err != nil {
				return fail(err)
			}
			deadline, lastNudge, merged := time.Now().Add(5*time.Second), time.Now(), false
			for !merged && time.Now().Before(deadline) {
				rd, err := w.Reader()
				if err != nil {
					return fail(err)
				}
				merged = len(rd.VerifSnapshot().Segments()) == 1
				_ = rd.Close()
				if !merged {
					if time.Since(lastNudge) > 300*time.Millisecond {
						// the merger sleeps until a persistence round ends after it registered its watcher
						if err := w.Batch(bluge.NewBatch()); err != nil {
							return fail(err)
						}
						lastNudge = time.Now()
					}
					time.Sleep(4 * time.Millisecond)
				}
			}
			if err := w.Close(); err != nil {
				return fail(fmt.Errorf("layered merge close: %w", err))
			}
			if merged {
				r.w.Count("layered_file_merge_reached", 1)
			} else {
				r.w.Count("layered_file_merge_not_reached", 1)
			}
			b = &lxBuild{name: "fs-file-merged-then-batches", merging: true}
			if err := add(b, r.buildWriter(b.name, sxMergeFreeConfig(bluge.DefaultConfig(dir)), splitBatches(r.rng, rest), b)); err != nil {
				return fail(err)
			}
			out = append(out, twin(b))
		}
	}
	return out, nil
}

// ---------------------------------------------------------------- observables

type lxObs struct {
	ids    []int
	sorted []int
	stored map[int]string
	count  uint64
	minN   float64
	maxN   float64
	terms  map[string]uint64
	scores map[int]float64
}

func storedCanon(fields map[string][]byte) string {
	keys := make([]string, 0, len(fields))
	for k := range fields {
		keys = append(keys, k)
	}
	sort.Strings(keys)
	var sb strings.Builder
	for _, k := range keys {
		v := fields[k]
		if k == "n" {
			f, err := bluge.DecodeNumericFloat64(v)
			if err == nil {
				fmt.Fprintf(&sb, "%s=%#x|", k, math.Float64bits(f))
				continue
			}
		}
		fmt.Fprintf(&sb, "%s=%q|", k, v)
	}
	return sb.String()
}

func expectedStored(v *sVersion) string {
	f := map[string][]byte{"_id": []byte(strconv.Itoa(v.ID)), "v": []byte(strconv.Itoa(v.V))}
	if v.HasText {
		f["t"] = []byte(v.Text)
	}
	if v.HasKw {
		f["k"] = []byte(v.Kw)
	}
	var sb strings.Builder
	keys := []string{"_id", "k", "n", "t", "v"}
	for _, k := range keys {
		if k == "n" {
			if v.HasNum {
				fmt.Fprintf(&sb, "%s=%#x|", k, math.Float64bits(v.Num))
			}
			continue
		}
		if val, ok := f[k]; ok {
			fmt.Fprintf(&sb, "%s=%q|", k, val)
		}
	}
	return sb.String()
}

func (b *lxBuild) search(req bluge.SearchRequest) (search.DocumentMatchIterator, error) {
	if b.multi {
		return bluge.MultiSearch(context.Background(), req, b.readers...)
	}
	return b.readers[0].Search(context.Background(), req)
}

func (b *lxBuild) observe(q bluge.Query) (*lxObs, error) {
	o := &lxObs{stored: map[int]string{}, terms: map[string]uint64{}, scores: map[int]float64{}}
	// 1. all matches with stored fields and aggregations (scoring "none" exists on TopN only)
	var req bluge.SearchRequest
	if b.scoreNone {
		t := bluge.NewTopNSearch(100000, q).SetScore("none")
		t.AddAggregation("cnt", aggregations.CountMatches())
		t.AddAggregation("minn", aggregations.Min(search.Field("n")))
		t.AddAggregation("maxn", aggregations.Max(search.Field("n")))
		t.AddAggregation("kterms", aggregations.NewTermsAggregation(search.Field("k"), 100))
		req = t
	} else {
		a := bluge.NewAllMatches(q)
		a.AddAggregation("cnt", aggregations.CountMatches())
		a.AddAggregation("minn", aggregations.Min(search.Field("n")))
		a.AddAggregation("maxn", aggregations.Max(search.Field("n")))
		a.AddAggregation("kterms", aggregations.NewTermsAggregation(search.Field("k"), 100))
		req = a
	}
	it, err := b.search(req)
	if err != nil {
		return nil, err
	}
	m, err := it.Next()
	for err == nil && m != nil {
		fields := map[string][]byte{}
		verr := m.VisitStoredFields(func(field string, value []byte) bool {
			fields[field] = append([]byte{}, value...)
			return true
		})
		if verr != nil {
			return nil, verr
		}
		id, _ := strconv.Atoi(string(fields["_id"]))
		o.ids = append(o.ids, id)
		o.stored[id] = storedCanon(fields)
		m, err = it.Next()
	}
	if err != nil {
		return nil, err
	}
	sort.Ints(o.ids)
	bk := it.Aggregations()
	o.count = uint64(bk.Metric("cnt"))
	o.minN, o.maxN = bk.Metric("minn"), bk.Metric("maxn")
	for _, tb := range bk.Buckets("kterms") {
		o.terms[tb.Name()] = tb.Count()
	}
	// 2. field sort by _id
	t := bluge.NewTopNSearch(100000, q).SortBy([]string{"_id"})
	if b.scoreNone {
		t.SetScore("none")
	}
	it, err = b.search(t)
	if err != nil {
		return nil, err
	}
	m, err = it.Next()
	for err == nil && m != nil {
		id, e := sxIdOfMatch(m)
		if e != nil {
			return nil, e
		}
		o.sorted = append(o.sorted, id)
		m, err = it.Next()
	}
	if err != nil {
		return nil, err
	}
	// 3. scores
	if !b.scoreNone && !b.multi {
		it, err = b.search(bluge.NewTopNSearch(100000, q))
		if err != nil {
			return nil, err
		}
		m, err = it.Next()
		for err == nil && m != nil {
			id, e := sxIdOfMatch(m)
			if e != nil {
				return nil, e
			}
			o.scores[id] = m.Score
			m, err = it.Next()
		}
		if err != nil {
			return nil, err
		}
	}
	return o, nil
}

type lxExpected struct {
	ids    []int
	sorted []int
	stored map[int]string
	count  uint64
	minN   float64
	maxN   float64
	terms  map[string]uint64
}

func expectedFor(q *sxGq, c *sCorpus) *lxExpected {
	e := &lxExpected{stored: map[int]string{}, terms: map[string]uint64{}, minN: math.Inf(1), maxN: math.Inf(-1)}
	e.ids, _ = q.expected(c)
	e.sorted = append([]int{}, e.ids...)
	sort.Slice(e.sorted, func(i, j int) bool { return strconv.Itoa(e.sorted[i]) < strconv.Itoa(e.sorted[j]) })
	e.count = uint64(len(e.ids))
	for _, id := range e.ids {
		v := c.Live[id]
		e.stored[id] = expectedStored(v)
		if v.HasNum {
			if v.Num < e.minN {
				e.minN = v.Num
			}
			if v.Num > e.maxN {
				e.maxN = v.Num
			}
		}
		if v.HasKw {
			e.terms[v.Kw]++
		}
	}
	return e
}

func hasWord(list, w string) bool {
	for _, x := range strings.Split(list, "+") {
		if x == w {
			return true
		}
	}
	return false
}

func sameTerms(a, b map[string]uint64) bool {
	if len(a) != len(b) {
		return false
	}
	for k, v := range a {
		if b[k] != v {
			return false
		}
	}
	return true
}

// ---------------------------------------------------------------- one corpus

func (r *layoutRun) corpus(ci int, c *sCorpus, nQueries int) error {
	w := r.w
	var builds []*lxBuild
	var berr error
	fin, pan := cq.Guard(60*time.Second, func() { builds, berr = r.builds(c) })
	if !fin {
		w.Abort("build-hang", "building the index variants did not finish within 60s", map[string]interface{}{"corpus": ci})
	}
	if pan != nil {
		w.OracleEval(1)
		w.OracleFail("build-panic", fmt.Sprint(pan), map[string]interface{}{"corpus": ci, "seed": r.o.Seed})
		return nil
	}
	if berr != nil {
		w.OracleEval(1)
		w.OracleFail("build-error", berr.Error(), map[string]interface{}{"corpus": ci, "seed": r.o.Seed})
		return nil
	}
	defer func() {
		for _, b := range builds {
			b.close()
		}
	}()
	// observed layouts
	for _, b := range builds {
		for _, rd := range b.readers {
			lay, err := sxObserveLayout(rd, c)
			if err != nil {
				return fmt.Errorf("%s: %w", b.name, err)
			}
			b.lays = append(b.lays, lay)
		}
		w.Count("build:"+strings.SplitN(b.name, ":", 2)[0], 1)
		if b.merging {
			nseg := len(b.lays[0].Segs)
			w.Count(fmt.Sprintf("merging_build_segments_%d", nseg), 1)
		}
	}
	var qitems, qmeta []string
	nontrivial := false
	nLive := len(c.Live)
	env := &sxCoqEnv{c: c, lay: builds[0].lays[0]}
	targeted := sxTargetedQueries(c)
	for qi := 0; qi < nQueries+len(targeted); qi++ {
		var q *sxGq
		if qi < nQueries {
			q = sxGenQuery(r.rng, c, 1+r.rng.Intn(3))
		} else {
			q = targeted[qi-nQueries]
			w.Count("queries_targeted_term_clauses", 1)
		}
		if _, blown := sxRangeCost(q); blown || sxFuzzyTranspositionSensitive(q, c) {
			continue
		}
		if _, masked := q.expected(c); len(masked) > 0 {
			continue // geo points inside the edge band: left to the search engine
		}
		rcost, _ := sxRangeCost(q)
		q.kinds(w.Stats)
		want := expectedFor(q, c)
		bq := q.bluge()
		var base *lxObs
		var baseName string
		for _, b := range builds {
			var obs *lxObs
			var oerr error
			desc := map[string]interface{}{"corpus": ci, "build": b.name, "query": q.String(), "seed": r.o.Seed}
			fin, pan := cq.Guard(30*time.Second, func() { obs, oerr = b.observe(bq) })
			if !fin {
				w.Abort("search-hang", "search did not return within 30s", desc)
			}
			w.OracleEval(1)
			if pan != nil {
				w.OracleFail("search-panic", fmt.Sprint(pan), desc)
				continue
			}
			if oerr != nil {
				w.OracleFail("search-error", oerr.Error(), desc)
				continue
			}
			if !sxEqualInts(obs.ids, want.ids) {
				desc["got"], desc["want"] = obs.ids, want.ids
				key := "match-set"
				if b.scoreNone && sxScoreNoneKnown(q, c, obs.ids, want.ids) {
					key = "score-none-drops-min-should"
				}
				w.OracleFail(key, "the match set of this build differs from the documented meaning over the logical documents", desc)
				continue
			}
			if !sxEqualInts(obs.sorted, want.sorted) {
				desc["got"], desc["want"] = obs.sorted, want.sorted
				w.OracleFail("field-sort-order", "order under the sort by _id differs", desc)
			}
			for _, id := range want.ids {
				if obs.stored[id] != want.stored[id] {
					desc["id"], desc["got"], desc["want"] = id, obs.stored[id], want.stored[id]
					w.OracleFail("stored-fields", "stored fields of a match differ", desc)
					break
				}
			}
			if obs.count != want.count || !sameTerms(obs.terms, want.terms) ||
				math.Float64bits(obs.minN) != math.Float64bits(want.minN) || math.Float64bits(obs.maxN) != math.Float64bits(want.maxN) {
				desc["got"] = fmt.Sprint(obs.count, obs.minN, obs.maxN, obs.terms)
				desc["want"] = fmt.Sprint(want.count, want.minN, want.maxN, want.terms)
				w.OracleFail("aggregations", "aggregations over the match set differ", desc)
			}
			// scores
			if b.scoreNone || b.multi {
				continue
			}
			if b.scoreComparable() {
				if base == nil {
					base, baseName = obs, b.name
					continue
				}
				for _, id := range want.ids {
					if math.Float64bits(obs.scores[id]) != math.Float64bits(base.scores[id]) {
						desc["id"], desc["score"], desc["baseline"], desc["baseline_build"] = id, obs.scores[id], base.scores[id], baseName
						w.OracleFail("scores-differ-without-merge-or-deletes", "two builds without merged segments or pending deletions score a match differently", desc)
						break
					}
				}
			} else if (b.merging || b.offline > 1) && !b.deletes && base != nil {
				for _, id := range want.ids {
					if math.Float64bits(obs.scores[id]) != math.Float64bits(base.scores[id]) {
						desc["id"], desc["score"], desc["baseline"] = id, obs.scores[id], base.scores[id]
						desc["segments"] = len(b.lays[0].Segs)
						w.OracleFail("scores-differ-after-merge", "a build containing merged segments scores a match differently (only the score differs)", desc)
						break
					}
				}
			}
		}
		if rcost <= 1500 && !sxScoreNoneShouldDefect(q) {
			// (queries of the known scoring-none class are judged by the oracle only: the score-none builds
			// may legitimately answer them differently)
			qitems = append(qitems, fmt.Sprintf("(%s, %s)", q.coq(env), cq.IntList(want.ids)))
			qmeta = append(qmeta, q.String())
		}
		if len(want.ids) > 0 && len(want.ids) < nLive {
			nontrivial = true
		}
	}
	// correspondence case: document table, layouts of every build, queries with the (single) answer
	table := c.Versions
	docs := make([]string, len(table))
	for i, v := range table {
		docs[i] = sxCoqDoc(v)
	}
	layCoq := func(l *sxALayout) string {
		segs := make([]string, len(l.Segs))
		for i, s := range l.Segs {
			idx := make([]string, len(s.Docs))
			for j, d := range s.Docs {
				idx[j] = cq.Nat(d.V)
			}
			segs[i] = cq.Pair(cq.List(idx), cq.IntList(s.Del))
		}
		return cq.List(segs)
	}
	var singles, multis []string
	var names []string
	for _, b := range builds {
		if b.multi {
			parts := make([]string, len(b.lays))
			for i, l := range b.lays {
				parts[i] = layCoq(l)
			}
			multis = append(multis, cq.List(parts))
		} else {
			opt := fmt.Sprintf("(OPT %s false %s %s %s)", cq.B(b.scoreNone), cq.B(!hasWord(b.optOff, "conj")),
				cq.B(!hasWord(b.optOff, "conj-unadorned")), cq.B(!hasWord(b.optOff, "disj-unadorned")))
			singles = append(singles, cq.Pair(opt, layCoq(b.lays[0])))
		}
		names = append(names, b.name)
	}
	w.Add(fmt.Sprintf("CLayouts %s %s %s %s", cq.List(docs), cq.List(singles), cq.List(multis), cq.List(qitems)), "layouts", nontrivial,
		map[string]interface{}{"corpus": ci, "builds": names, "queries": qmeta, "live": nLive, "seed": r.o.Seed})
	return nil
}

// ---------------------------------------------------------------- the empty index through every door

func (r *layoutRun) emptyProbes() error {
	w := r.w
	// an offline writer that received no document
	dir := r.dir()
	cfg := bluge.DefaultConfig(dir)
	var err error
	var count uint64
	fin, pan := cq.Guard(20*time.Second, func() {
		var ow *bluge.OfflineWriter
		ow, err = bluge.OpenOfflineWriter(cfg, 10, 2)
		if err != nil {
			return
		}
		err = ow.Close()
		if err != nil {
			return
		}
		var rd *bluge.Reader
		rd, err = bluge.OpenReader(cfg)
		if err != nil {
			return
		}
		count, err = rd.Count()
		_ = rd.Close()
	})
	w.OracleEval(1)
	desc := map[string]interface{}{"recipe": "OpenOfflineWriter; Close; OpenReader"}
	switch {
	case !fin:
		w.Abort("offline-empty-hang", "offline writer without documents hangs", desc)
	case pan != nil:
		desc["panic"] = fmt.Sprint(pan)
		w.OracleFail("offline-writer-empty-panics", "the offline writer cannot build the empty index: Close panics", desc)
	case err != nil:
		desc["error"] = err.Error()
		w.OracleFail("offline-writer-empty-fails", "the offline writer cannot build the empty index", desc)
	case count != 0:
		w.OracleFail("match-set", "empty offline index is not empty", desc)
	}
	// a writer on a new file-system directory that is closed without any batch, then reopened
	{
		dir := r.dir()
		cfg := bluge.DefaultConfig(dir)
		var err error
		var count uint64
		fin, pan := cq.Guard(20*time.Second, func() {
			var wr *bluge.Writer
			wr, err = bluge.OpenWriter(cfg)
			if err != nil {
				return
			}
			if err = wr.Close(); err != nil {
				return
			}
			var rd *bluge.Reader
			rd, err = bluge.OpenReader(cfg)
			if err != nil {
				return
			}
			count, err = rd.Count()
			_ = rd.Close()
		})
		w.OracleEval(1)
		desc := map[string]interface{}{"recipe": "OpenWriter(DefaultConfig(dir)); Close; OpenReader"}
		switch {
		case !fin:
			w.Abort("empty-reopen-hang", "reopening an empty index hangs", desc)
		case pan != nil:
			desc["panic"] = fmt.Sprint(pan)
			w.OracleFail("empty-index-reopen-panics", "the empty index cannot be reopened", desc)
		case err != nil:
			desc["error"] = err.Error()
			w.OracleFail("empty-index-reopen-fails", "an index that never received a batch has no snapshot on disk: OpenReader fails instead of answering with no matches", desc)
		case count != 0:
			w.OracleFail("match-set", "empty index is not empty", desc)
		}
	}
	return nil
}
