package engines

import (
	"bytes"
	"context"
	"fmt"
	"math"
	"math/rand"
	"sort"
	"time"

	"github.com/blugelabs/bluge"
	"github.com/blugelabs/bluge/numeric"
	"github.com/blugelabs/bluge/numeric/geo"
	"github.com/blugelabs/bluge/search/searcher"

	"verif/harness/cq"
)

func init() { Registry["numeric"] = runNumeric }

func int64Boundary() []int64 {
	set := map[int64]bool{}
	add := func(v int64) { set[v] = true }
	for _, v := range []int64{math.MinInt64, math.MinInt64 + 1, -1, 0, 1, math.MaxInt64 - 1, math.MaxInt64} {
		add(v)
	}
	for k := uint(0); k < 63; k++ {
		p := int64(1) << k
		for _, d := range []int64{-1, 0, 1} {
			add(p + d)
			add(-p + d)
		}
		if k%4 == 0 {
			add(15 * p)
			add(15*p + 1)
			add(-15 * p)
		}
		if k%7 == 0 {
			add(127 * p)
			add(-(127 * p))
		}
	}
	out := make([]int64, 0, len(set))
	for v := range set {
		out = append(out, v)
	}
	sort.Slice(out, func(i, j int) bool { return out[i] < out[j] })
	return out
}

func floatBoundary() []float64 {
	set := map[uint64]bool{}
	add := func(f float64) { set[math.Float64bits(f)] = true }
	base := []float64{0, math.Copysign(0, -1), math.SmallestNonzeroFloat64, math.Float64frombits(0x000fffffffffffff),
		math.Float64frombits(0x0010000000000000), 1, 2, 0.5, 1.5, 3, 10, 100, 1e10, 1e100, 1e300, math.MaxFloat64,
		math.Pi, 1e-10, 1e-300, 4503599627370496, 9007199254740992, 9007199254740993}
	for _, f := range base {
		for _, s := range []float64{1, -1} {
			g := f * s
			add(g)
			add(math.Nextafter(g, math.Inf(1)))
			add(math.Nextafter(g, math.Inf(-1)))
		}
	}
	for e := -1074; e <= 1023; e += 37 {
		add(math.Ldexp(1, e))
		add(-math.Ldexp(1, e))
	}
	out := make([]float64, 0, len(set))
	for b := range set {
		f := math.Float64frombits(b)
		if !math.IsInf(f, 0) && !math.IsNaN(f) {
			out = append(out, f)
		}
	}
	sort.Slice(out, func(i, j int) bool {
		return ieeeLess(out[i], out[j])
	})
	return out
}

// ieeeLess: a sorts before b, with -0 immediately below +0 (finite values).
func ieeeLess(a, b float64) bool {
	if a == 0 && b == 0 {
		return math.Signbit(a) && !math.Signbit(b)
	}
	return a < b
}

func cmpInt(a, b int) int {
	if a < b {
		return -1
	}
	if a > b {
		return 1
	}
	return 0
}

const enumBudget = 70000

// enumerateBudget runs termRange.Enumerate on one range, aborting (through a panic
// raised in the filter) once more than enumBudget candidate terms were visited.
func enumerateBudget(start, end []byte, dict func([]byte) bool) (terms [][]byte, blown bool) {
	calls := 0
	defer func() {
		if r := recover(); r != nil {
			if r == "enum-budget" {
				terms, blown = nil, true
				return
			}
			panic(r)
		}
	}()
	terms = searcher.VerifEnumerateRange(start, end, func(t []byte) bool {
		calls++
		if calls > enumBudget {
			panic("enum-budget")
		}
		return dict(t)
	})
	return terms, false
}

// blowupIsCarry: the walk from start to end legitimately (as coded) needs more than
// 65536 steps exactly when the two terms differ at a byte at least three from the end.
func blowupIsCarry(start, end []byte) bool {
	if len(start) != len(end) {
		return false
	}
	for i := 0; i < len(start)-2; i++ {
		if start[i] != end[i] {
			return true
		}
	}
	return false
}

// rangeWouldBlowUp mirrors the int64 bounds NewNumericRangeSearcher derives from its float end
// points and reports whether the term enumeration of one of the split ranges exceeds the
// candidate budget (known finding D8), with the finding key for that range.
func rangeWouldBlowUp(lo, hi float64, il, ih bool) (bool, string) {
	minI, maxI := int64(math.MinInt64), int64(math.MaxInt64)
	if !math.IsInf(lo, -1) {
		minI = numeric.Float64ToInt64(lo)
	}
	if !math.IsInf(hi, 1) {
		maxI = numeric.Float64ToInt64(hi)
	}
	if !il && minI != math.MaxInt64 {
		minI++
	}
	if !ih && maxI != math.MinInt64 {
		maxI--
	}
	for _, tr := range searcher.VerifSplitInt64Range(minI, maxI, 4) {
		if _, blown := enumerateBudget(tr[0], tr[1], func([]byte) bool { return false }); blown {
			key := "enumerate-runaway"
			if blowupIsCarry(tr[0], tr[1]) {
				key = "enumerate-blowup-carry"
			}
			return true, key
		}
	}
	return false, ""
}

// i2fBits is Int64ToFloat64 on bit patterns, in integer arithmetic.
func i2fBits(i int64) uint64 {
	if i < 0 {
		i ^= 0x7fffffffffffffff
	}
	return uint64(i)
}

// the two instants (ns) whose Int64ToFloat64 image is -Inf / +Inf
const (
	nanosNegInfAlias = int64(-9218868437227405313)
	nanosPosInfAlias = int64(9218868437227405312)
)

func runNumeric(o Opts) error {
	rng := rand.New(rand.NewSource(o.Seed))
	w := cq.New(o.Out, "From Bluge Require Import Base.Res Search.Numeric Search.NumericCorr.", "ncase", 400)
	ints := int64Boundary()
	floats := floatBoundary()
	nRand := 150
	if o.Thorough() {
		nRand = 3000
	}
	randInts := make([]int64, 0, nRand)
	for i := 0; i < nRand; i++ {
		v := int64(rng.Uint64())
		switch rng.Intn(4) {
		case 0:
			v >>= uint(rng.Intn(64))
		case 1:
			v = ints[rng.Intn(len(ints))] + int64(rng.Intn(33)-16)
		}
		randInts = append(randInts, v)
	}
	w.Count("boundary_int64", len(ints))
	w.Count("boundary_float64", len(floats))

	// ---- F2I cases: Float64ToInt64 / Int64ToFloat64 on boundary + random patterns (NaN/Inf patterns included)
	patterns := make([]uint64, 0)
	for _, f := range floats {
		patterns = append(patterns, math.Float64bits(f))
	}
	patterns = append(patterns, 0x7ff0000000000000, 0xfff0000000000000, 0x7ff8000000000001, 0xfff8000000000000, 0xffffffffffffffff, 0x7fffffffffffffff)
	for _, v := range randInts {
		patterns = append(patterns, uint64(v))
	}
	for _, p := range patterns {
		i := numeric.Float64ToInt64(math.Float64frombits(p))
		back := math.Float64bits(numeric.Int64ToFloat64(i))
		w.Add(fmt.Sprintf("CF2I %s %s %s", cq.U(p), cq.Z(i), cq.U(back)), "f2i", p != 0,
			map[string]interface{}{"bits": fmt.Sprintf("%#x", p), "out": i})
		w.OracleEval(1)
		// NaN payloads round-trip through Go float registers on amd64 unchanged
		if back != p {
			w.OracleFail("f2i-roundtrip", "Int64ToFloat64(Float64ToInt64(x)) != x", fmt.Sprintf("%#x", p))
		}
	}
	// oracle: order embedding on all pairs of finite boundary floats
	for i, a := range floats {
		ia := numeric.Float64ToInt64(a)
		for j, b := range floats {
			ib := numeric.Float64ToInt64(b)
			w.OracleEval(1)
			if (ia < ib) != (i < j) {
				w.OracleFail("f2i-order", "order not preserved", []string{fmt.Sprintf("%#x", math.Float64bits(a)), fmt.Sprintf("%#x", math.Float64bits(b))})
			}
		}
	}
	// -0 immediately below +0
	w.OracleEval(1)
	if numeric.Float64ToInt64(math.Copysign(0, -1))+1 != numeric.Float64ToInt64(0) {
		w.OracleFail("f2i-zero", "-0 not immediately below +0", nil)
	}

	// ---- Prefix coding cases
	shifts := []uint{0, 1, 3, 4, 6, 7, 8, 9, 12, 13, 14, 16, 20, 21, 27, 28, 32, 35, 36, 42, 48, 49, 52, 56, 57, 60, 62, 63, 64, 65, 100}
	pcVals := append(append([]int64{}, ints...), randInts...)
	for idx, v := range pcVals {
		ss := shifts
		if idx%9 != 0 { // every value at a few shifts, every ninth at all
			ss = []uint{0, uint(rng.Intn(64))}
		}
		for _, s := range ss {
			p, err := numeric.NewPrefixCodedInt64(v, s)
			out := cq.None()
			if err == nil {
				out = cq.Some(cq.Bytes(p))
			}
			w.Add(fmt.Sprintf("CPrefix %s %d %s", cq.Z(v), s, out), "prefix", err == nil,
				map[string]interface{}{"v": v, "shift": s})
			if err == nil {
				dec, derr := numeric.PrefixCoded(p).Int64()
				valid, vs := numeric.ValidPrefixCodedTermBytes(p)
				decS := cq.None()
				if derr == nil {
					decS = cq.Some(cq.Z(dec))
				}
				w.Add(fmt.Sprintf("CDecode %s %s %s %s", cq.Bytes(p), decS, cq.B(valid), cq.I(vs)), "decode", true,
					map[string]interface{}{"p": fmt.Sprintf("%x", []byte(p))})
				w.OracleEval(1)
				if s == 0 && (derr != nil || dec != v) {
					w.OracleFail("prefix-roundtrip", "decode(encode(v,0)) != v", v)
				}
				if !valid || vs != int(s) {
					w.OracleFail("prefix-valid", "ValidPrefixCodedTermBytes rejects an encoding", v)
				}
			}
		}
	}
	// garbage decode inputs
	for i := 0; i < 120; i++ {
		n := rng.Intn(13)
		p := make([]byte, n)
		for k := range p {
			p[k] = byte(rng.Intn(256))
		}
		if n > 0 && rng.Intn(2) == 0 {
			p[0] = byte(0x20 + rng.Intn(70))
		}
		dec, derr := numeric.PrefixCoded(p).Int64()
		valid, vs := numeric.ValidPrefixCodedTermBytes(p)
		decS := cq.None()
		if derr == nil {
			decS = cq.Some(cq.Z(dec))
		}
		w.Add(fmt.Sprintf("CDecode %s %s %s %s", cq.Bytes(p), decS, cq.B(valid), cq.I(vs)), "decode-garbage", n > 0,
			map[string]interface{}{"p": fmt.Sprintf("%x", p)})
	}
	// oracle: prefix order on all boundary pairs x all shifts
	oints := ints
	for s := uint(0); s < 64; s++ {
		encs := make([][]byte, len(oints))
		for i, v := range oints {
			encs[i] = numeric.MustNewPrefixCodedInt64(v, s)
		}
		for i := range oints {
			ui := (uint64(oints[i]) ^ 0x8000000000000000) >> s
			for j := range oints {
				uj := (uint64(oints[j]) ^ 0x8000000000000000) >> s
				want := 0
				if ui < uj {
					want = -1
				} else if ui > uj {
					want = 1
				}
				w.OracleEval(1)
				if bytes.Compare(encs[i], encs[j]) != want || len(encs[i]) != len(encs[j]) {
					w.OracleFail("prefix-order", fmt.Sprintf("shift %d", s), []int64{oints[i], oints[j]})
				}
			}
		}
	}

	// ---- increment bytes
	for i := 0; i < 60; i++ {
		n := rng.Intn(6)
		p := make([]byte, n)
		for k := range p {
			switch rng.Intn(3) {
			case 0:
				p[k] = 0xff
			case 1:
				p[k] = 0x7f
			default:
				p[k] = byte(rng.Intn(256))
			}
		}
		out := searcher.VerifIncrementBytes(p)
		w.Add(fmt.Sprintf("CIncr %s %s", cq.Bytes(p), cq.Bytes(out)), "incr", n > 0, map[string]interface{}{"p": fmt.Sprintf("%x", p)})
	}

	// ---- index tokens of the numeric analyzer (via NumericField / DateTimeField term enumeration)
	tokensOf := func(v int64) [][]byte {
		f := bluge.NewNumericField("f", numeric.Int64ToFloat64(v))
		f.Analyze(0)
		return sortedTerms(f)
	}
	tokVals := append(append([]int64{}, ints[:]...), randInts[:40]...)
	for i, v := range tokVals {
		if !o.Thorough() && i%3 != 0 {
			continue
		}
		f := numeric.Int64ToFloat64(v)
		if math.IsNaN(f) { // NaN payload canonicalisation is outside the property (finite values)
			continue
		}
		toks := tokensOf(v)
		w.Add(fmt.Sprintf("CTokens %s %s", cq.Z(v), cq.BytesList(toks)), "tokens", true, map[string]interface{}{"v": v})
		if i%9 == 0 || o.Thorough() {
			df := bluge.NewDateTimeField("d", time.Unix(0, v))
			df.Analyze(0)
			w.Add(fmt.Sprintf("CTokensKind 0 %s %s", cq.Z(v), cq.BytesList(sortedTerms(df))), "tokens-datetime", true, map[string]interface{}{"v": v})
		}
	}

	// ---- splitInt64Range cases + exactness oracle
	type pair struct{ lo, hi int64 }
	var pairs []pair
	sub := make([]int64, 0)
	for i, v := range ints {
		if i%4 == 0 {
			sub = append(sub, v)
		}
	}
	for _, a := range sub {
		for _, b := range sub {
			if rng.Intn(8) == 0 || a == b {
				pairs = append(pairs, pair{a, b})
			}
		}
	}
	for i := 0; i < nRand; i++ {
		a, b := randInts[rng.Intn(len(randInts))], randInts[rng.Intn(len(randInts))]
		if rng.Intn(3) == 0 {
			b = a + int64(rng.Intn(100000))
		}
		pairs = append(pairs, pair{a, b})
	}
	pairs = append(pairs, pair{math.MinInt64, math.MaxInt64}, pair{0, 0}, pair{-1, 0}, pair{math.MaxInt64, math.MaxInt64}, pair{math.MinInt64, math.MinInt64}, pair{5, 3})
	steps := []uint{4, 4, 4, 4, 4, 4, 1, 2, 8, 9, 16}
	splitLimit := 600
	if o.Thorough() {
		splitLimit = 6000
	}
	for pi, pr := range pairs {
		step := steps[pi%len(steps)]
		trs := searcher.VerifSplitInt64Range(pr.lo, pr.hi, step)
		if pi < splitLimit {
			items := make([]string, len(trs))
			for i, tr := range trs {
				items[i] = cq.Pair(cq.Bytes(tr[0]), cq.Bytes(tr[1]))
			}
			w.Add(fmt.Sprintf("CSplit %s %s %d %s", cq.Z(pr.lo), cq.Z(pr.hi), step, cq.List(items)), "split", pr.lo <= pr.hi,
				map[string]interface{}{"min": pr.lo, "max": pr.hi, "step": step, "ranges": len(trs)})
			w.Count(fmt.Sprintf("split_ranges_%02d", len(trs)/4*4), 1)
		}
		if step != 4 {
			continue
		}
		// oracle: a value matches through its index tokens iff it lies in [lo,hi]
		probe := []int64{pr.lo, pr.lo - 1, pr.lo + 1, pr.hi, pr.hi - 1, pr.hi + 1, pr.lo + 16, pr.hi - 16, pr.lo | 0xf, pr.hi &^ 0xf,
			(pr.lo &^ 0xff) - 1, (pr.hi | 0xff) + 1, pr.lo/2 + pr.hi/2}
		for k := 0; k < 12; k++ {
			probe = append(probe, ints[rng.Intn(len(ints))], randInts[rng.Intn(len(randInts))])
		}
		for _, v := range probe {
			matched := false
			for s := uint(0); s < 64 && !matched; s += 4 {
				tok := numeric.MustNewPrefixCodedInt64(v, s)
				for _, tr := range trs {
					if len(tr[0]) == len(tok) && bytes.Compare(tr[0], tok) <= 0 && bytes.Compare(tok, tr[1]) <= 0 {
						matched = true
						break
					}
				}
			}
			w.OracleEval(1)
			if matched != (pr.lo <= v && v <= pr.hi) {
				w.OracleFail("split-exact", fmt.Sprintf("value %d matched=%v for [%d,%d]", v, matched, pr.lo, pr.hi), []int64{pr.lo, pr.hi, v})
			}
		}
	}

	// ---- termRange.Enumerate on single ranges (incl. ranges crossing 7-bit digit boundaries)
	enumPairs := [][2]int64{{-1, 0}, {127, 128}, {16383, 16384}, {2097151, 2097152}, {100, 115}, {-16, -1}, {0, 15}, {16368, 16399}}
	for i := 0; i < 40; i++ {
		a := randInts[rng.Intn(len(randInts))]
		enumPairs = append(enumPairs, [2]int64{a, a + int64(rng.Intn(40))})
	}
	for _, pr := range enumPairs {
		if pr[0] > pr[1] {
			continue
		}
		for _, tr := range searcher.VerifSplitInt64Range(pr[0], pr[1], 4) {
			dictSet := [][]byte{tr[0], tr[1]}
			terms, blown := enumerateBudget(tr[0], tr[1], func(t []byte) bool {
				for _, d := range dictSet {
					if bytes.Equal(d, t) {
						return true
					}
				}
				return false
			})
			out := cq.None()
			if !blown {
				out = cq.Some(cq.BytesList(terms))
			}
			w.Add(fmt.Sprintf("CEnum %s %s %s %s", cq.Bytes(tr[0]), cq.Bytes(tr[1]), cq.BytesList(dictSet), out), "enum", true,
				map[string]interface{}{"min": pr[0], "max": pr[1], "blown": blown})
			w.OracleEval(1)
			if blown {
				key := "enumerate-runaway"
				if blowupIsCarry(tr[0], tr[1]) {
					key = "enumerate-blowup-carry"
				}
				w.OracleFail(key, fmt.Sprintf("termRange.Enumerate visits more than %d candidate terms for int64 range [%d,%d]", enumBudget, pr[0], pr[1]),
					map[string]interface{}{"min": pr[0], "max": pr[1], "start": fmt.Sprintf("%x", tr[0]), "end": fmt.Sprintf("%x", tr[1])})
			}
		}
	}

	// ---- end to end: NumericRange queries on an in-memory index
	if err := numericE2E(o, rng, w, floats); err != nil {
		return err
	}
	// ---- end to end: DateRange queries over DateTime fields (int64 nanoseconds)
	if err := dateE2E(o, rng, w, ints); err != nil {
		return err
	}
	// ---- geo point fields: Morton hash through the prefix coding at geoPrecisionStep
	geoCases(o, rng, w)
	// interleave
	for i := 0; i < 80; i++ {
		a, b := uint64(rng.Uint32()), uint64(rng.Uint32())
		if i%5 == 0 {
			a, b = rng.Uint64(), rng.Uint64()
		}
		x := numeric.Interleave(a, b)
		w.Add(fmt.Sprintf("CInterleave %s %s %s %s %s", cq.U(a), cq.U(b), cq.U(x), cq.U(numeric.Deinterleave(x)), cq.U(numeric.Deinterleave(x>>1))),
			"interleave", true, map[string]interface{}{"a": a, "b": b})
		w.OracleEval(1)
		if a < 1<<32 && b < 1<<32 && (numeric.Deinterleave(x) != a || numeric.Deinterleave(x>>1) != b) {
			w.OracleFail("interleave-roundtrip", "deinterleave(interleave) != id", []uint64{a, b})
		}
	}
	w.Close()
	return nil
}

func numericE2E(o Opts, rng *rand.Rand, w *cq.Writer, floats []float64) error {
	rounds := 6
	if o.Thorough() {
		rounds = 60
	}
	for r := 0; r < rounds; r++ {
		// pick 12..30 doc values, clustered
		n := 12 + rng.Intn(9)
		vals := make([]float64, n)
		hot := []float64{0, math.Copysign(0, -1), math.SmallestNonzeroFloat64, -math.SmallestNonzeroFloat64, 1, -1,
			math.MaxFloat64, -math.MaxFloat64, math.Nextafter(1, 2), math.Nextafter(-1, -2), 16, 15.999999999999998}
		for i := range vals {
			if i < 8 {
				vals[i] = hot[rng.Intn(len(hot))]
				continue
			}
			switch rng.Intn(3) {
			case 0:
				vals[i] = floats[rng.Intn(len(floats))]
			case 1:
				vals[i] = float64(rng.Intn(64) - 32)
			default:
				vals[i] = math.Float64frombits(math.Float64bits(floats[rng.Intn(len(floats))]) + uint64(rng.Intn(5)))
				if math.IsNaN(vals[i]) || math.IsInf(vals[i], 0) {
					vals[i] = 1
				}
			}
		}
		wr, err := bluge.OpenWriter(bluge.InMemoryOnlyConfig())
		if err != nil {
			return err
		}
		// two batches so that two segments exist
		b := bluge.NewBatch()
		for i, v := range vals {
			d := bluge.NewDocument(fmt.Sprintf("%d", i)).AddField(bluge.NewNumericField("n", v))
			b.Insert(d)
			if i == n/2 {
				if err := wr.Batch(b); err != nil {
					return err
				}
				b = bluge.NewBatch()
			}
		}
		if err := wr.Batch(b); err != nil {
			return err
		}
		rd, err := wr.Reader()
		if err != nil {
			return err
		}
		// numeric sorting: a match-all search sorted on the field returns the documents in the
		// float order (-0 below +0), ascending / descending
		for _, desc := range []bool{false, true} {
			order := "n"
			if desc {
				order = "-n"
			}
			var seq []uint64
			var serr error
			fin, pan := cq.Guard(20*time.Second, func() {
				it, err := rd.Search(context.Background(), bluge.NewTopNSearch(n, bluge.NewMatchAllQuery()).SortBy([]string{order}))
				if err != nil {
					serr = fmt.Errorf("sorted search: %w", err)
					return
				}
				m, err := it.Next()
				for err == nil && m != nil {
					var id string
					m.VisitStoredFields(func(field string, value []byte) bool {
						if field == "_id" {
							id = string(value)
						}
						return true
					})
					var k int
					fmt.Sscanf(id, "%d", &k)
					seq = append(seq, math.Float64bits(vals[k]))
					m, err = it.Next()
				}
				serr = err
			})
			if !fin {
				w.Abort("sort-hang", "sorted match-all search did not return within 20s", order)
			}
			if pan != nil {
				w.OracleFail("sort-panic", fmt.Sprint(pan), order)
				continue
			}
			if serr != nil {
				return serr
			}
			w.OracleEval(1)
			if len(seq) != n {
				w.OracleFail("sort-count", fmt.Sprintf("sorted match-all returned %d of %d documents", len(seq), n), order)
			}
			for i := 1; i < len(seq); i++ {
				a, b := math.Float64frombits(seq[i-1]), math.Float64frombits(seq[i])
				if desc {
					a, b = b, a
				}
				w.OracleEval(1)
				if ieeeLess(b, a) {
					w.OracleFail("sort-order", fmt.Sprintf("numeric sort (%s) returns %#x before %#x", order, seq[i-1], seq[i]), []uint64{seq[i-1], seq[i]})
				}
			}
			allBits := make([]uint64, n)
			for i, v := range vals {
				allBits[i] = math.Float64bits(v)
			}
			w.Add(fmt.Sprintf("CSort %s %s %s", cq.B(desc), cq.U64List(allBits), cq.U64List(seq)), "sort", true,
				map[string]interface{}{"order": order, "docs": n})
		}
		nq := 1500
		emitEvery := 30
		for q := 0; q < nq; q++ {
			pick := func() float64 {
				switch rng.Intn(6) {
				case 0:
					return math.Inf(-1)
				case 1:
					return math.Inf(1)
				case 2:
					return floats[rng.Intn(len(floats))]
				case 3:
					return hot[rng.Intn(len(hot))]
				default:
					return vals[rng.Intn(len(vals))]
				}
			}
			lo, hi := pick(), pick()
			il, ih := rng.Intn(2) == 0, rng.Intn(2) == 0
			// pre-check: would the term enumeration of this query blow up (known finding D8)?
			w.OracleEval(1)
			if blown, key := rangeWouldBlowUp(lo, hi, il, ih); blown {
				w.OracleFail(key, "numeric range query would enumerate a practically unbounded number of candidate terms",
					map[string]interface{}{"lo": fmt.Sprintf("%#x", math.Float64bits(lo)), "hi": fmt.Sprintf("%#x", math.Float64bits(hi)), "il": il, "ih": ih})
				w.Count("rangeq_skipped_blowup", 1)
				continue
			}
			qq := bluge.NewNumericRangeInclusiveQuery(lo, hi, il, ih).SetField("n")
			got := make([]bool, n)
			var serr error
			qdesc := map[string]interface{}{"lo": fmt.Sprintf("%#x", math.Float64bits(lo)), "hi": fmt.Sprintf("%#x", math.Float64bits(hi)), "il": il, "ih": ih}
			fin, pan := cq.Guard(20*time.Second, func() {
				it, err := rd.Search(context.Background(), bluge.NewAllMatches(qq))
				if err != nil {
					serr = fmt.Errorf("search: %w", err)
					return
				}
				m, err := it.Next()
				for err == nil && m != nil {
					var id string
					m.VisitStoredFields(func(field string, value []byte) bool {
						if field == "_id" {
							id = string(value)
						}
						return true
					})
					var k int
					fmt.Sscanf(id, "%d", &k)
					if got[k] {
						w.OracleFail("range-dup", "document returned twice", id)
					}
					got[k] = true
					m, err = it.Next()
				}
				serr = err
			})
			if !fin {
				w.Abort("range-hang", "numeric range query did not return within 20s although its term enumeration is small", qdesc)
			}
			if pan != nil {
				w.OracleFail("range-panic", fmt.Sprint(pan), qdesc)
				continue
			}
			if serr != nil {
				return serr
			}
			bits := make([]uint64, n)
			obs := make([]string, n)
			nm := 0
			for i, v := range vals {
				bits[i] = math.Float64bits(v)
				obs[i] = cq.B(got[i])
				if got[i] {
					nm++
				}
				// oracle: interval membership in the -0 < +0 order the encoding is specified with
				ge := ieeeLess(lo, v) || (il && math.Float64bits(lo) == math.Float64bits(v)) || math.IsInf(lo, -1)
				le := ieeeLess(v, hi) || (ih && math.Float64bits(hi) == math.Float64bits(v)) || math.IsInf(hi, 1)
				if math.IsInf(lo, 1) {
					ge = false
				}
				if math.IsInf(hi, -1) {
					le = false
				}
				w.OracleEval(1)
				if got[i] != (ge && le) {
					w.OracleFail("range-exact", fmt.Sprintf("doc value %#x matched=%v", bits[i], got[i]),
						map[string]interface{}{"lo": fmt.Sprintf("%#x", math.Float64bits(lo)), "hi": fmt.Sprintf("%#x", math.Float64bits(hi)), "il": il, "ih": ih, "v": fmt.Sprintf("%#x", bits[i])})
				}
			}
			if q%emitEvery != 0 {
				continue
			}
			w.Add(fmt.Sprintf("CRangeQ %s %s %s %s %s %s", cq.U(math.Float64bits(lo)), cq.U(math.Float64bits(hi)), cq.B(il), cq.B(ih), cq.U64List(bits), cq.List(obs)),
				"rangeq", nm > 0 && nm < n, map[string]interface{}{"lo": fmt.Sprintf("%#x", math.Float64bits(lo)), "hi": fmt.Sprintf("%#x", math.Float64bits(hi)), "il": il, "ih": ih, "matched": nm, "docs": n})
		}
		rd.Close()
		wr.Close()
	}
	return nil
}

func sortedTerms(f *bluge.TermField) [][]byte {
	var out [][]byte
	// each term as often as the analyzer produced it (the model's token list has multiplicities)
	for _, tf := range f.AnalyzedTokenFrequencies() {
		for k := 0; k < tf.Frequency(); k++ {
			out = append(out, append([]byte{}, tf.TermVal...))
		}
	}
	sort.Slice(out, func(i, j int) bool { return bytes.Compare(out[i], out[j]) < 0 })
	return out
}

// geoCases: GeoPointField terms = prefix codes of the Morton hash at shifts 0, 9, ..., 63;
// oracle: the shift-0 term decodes to the hash, the two halves de-interleave to the scaled
// coordinates, and the shift-s terms of two points order like the truncated sortable hashes.
func geoCases(o Opts, rng *rand.Rand, w *cq.Writer) {
	type pt struct{ lon, lat float64 }
	pts := []pt{{0, 0}, {-180, -90}, {180, 90}, {-180, 90}, {180, -90}, {179.99999999, 89.99999999}, {-0.0000001, 0.0000001},
		{2.3522, 48.8566}, {-74.006, 40.7128}, {151.2093, -33.8688}, {90, 45}, {-90, -45}, {0.000001, -0.000001}}
	n := 30
	if o.Thorough() {
		n = 400
	}
	for i := 0; i < n; i++ {
		pts = append(pts, pt{rng.Float64()*360 - 180, rng.Float64()*180 - 90})
	}
	hashes := make([]uint64, len(pts))
	for i, p := range pts {
		h := geo.MortonHash(p.lon, p.lat)
		hashes[i] = h
		f := bluge.NewGeoPointField("g", p.lon, p.lat)
		f.Analyze(0)
		toks := sortedTerms(f)
		w.Add(fmt.Sprintf("CTokensKind 1 %s %s", cq.Z(int64(h)), cq.BytesList(toks)), "tokens-geo", true,
			map[string]interface{}{"lon": p.lon, "lat": p.lat, "hash": fmt.Sprintf("%#x", h)})
		a, b := numeric.Deinterleave(h), numeric.Deinterleave(h>>1)
		w.Add(fmt.Sprintf("CInterleave %s %s %s %s %s", cq.U(a), cq.U(b), cq.U(numeric.Interleave(a, b)), cq.U(a), cq.U(b)),
			"interleave-geo", true, map[string]interface{}{"a": a, "b": b})
		w.OracleEval(2)
		if numeric.Interleave(a, b) != h || a >= 1<<32 || b >= 1<<32 {
			w.OracleFail("geo-interleave", "Morton hash is not the interleaving of its two de-interleaved 32-bit halves", []float64{p.lon, p.lat})
		}
		dec, err := numeric.PrefixCoded(f.Value()).Int64()
		if err != nil || uint64(dec) != h {
			w.OracleFail("geo-roundtrip", "shift-0 term of a geo point does not decode to its Morton hash", []float64{p.lon, p.lat})
		}
	}
	for s := uint(0); s < 64; s += 9 {
		encs := make([][]byte, len(hashes))
		for i, h := range hashes {
			encs[i] = numeric.MustNewPrefixCodedInt64(int64(h), s)
		}
		for i := range hashes {
			ui := (hashes[i] ^ 0x8000000000000000) >> s
			for j := range hashes {
				uj := (hashes[j] ^ 0x8000000000000000) >> s
				want := 0
				if ui < uj {
					want = -1
				} else if ui > uj {
					want = 1
				}
				w.OracleEval(1)
				if bytes.Compare(encs[i], encs[j]) != want || len(encs[i]) != len(encs[j]) {
					w.OracleFail("prefix-order", fmt.Sprintf("geo hashes, shift %d", s), []uint64{hashes[i], hashes[j]})
				}
			}
		}
	}
}

// dateE2E: DateRange queries over DateTime fields; values and end points are int64 nanoseconds.
func dateE2E(o Opts, rng *rand.Rand, w *cq.Writer, ints []int64) error {
	rounds := 2
	if o.Thorough() {
		rounds = 20
	}
	hot := []int64{math.MinInt64, math.MinInt64 + 1, -1, 0, 1, math.MaxInt64 - 1, math.MaxInt64,
		nanosNegInfAlias - 1, nanosNegInfAlias, nanosNegInfAlias + 1, nanosPosInfAlias - 1, nanosPosInfAlias, nanosPosInfAlias + 1,
		1577836800000000000, 1577836800000000001, 1577836800000000015, 1577836800000000016, 1609459200000000000,
		15, 16, 17, 255, 256, -16, -17}
	for r := 0; r < rounds; r++ {
		n := 14 + rng.Intn(9)
		vals := make([]int64, n)
		for i := range vals {
			switch {
			case i < 9:
				vals[i] = hot[rng.Intn(len(hot))]
			case rng.Intn(2) == 0:
				vals[i] = ints[rng.Intn(len(ints))]
			default:
				vals[i] = 1577836800000000000 + int64(rng.Intn(4096)) - 2048
			}
		}
		wr, err := bluge.OpenWriter(bluge.InMemoryOnlyConfig())
		if err != nil {
			return err
		}
		b := bluge.NewBatch()
		for i, v := range vals {
			b.Insert(bluge.NewDocument(fmt.Sprintf("%d", i)).AddField(bluge.NewDateTimeField("d", time.Unix(0, v))))
			if i == n/2 {
				if err := wr.Batch(b); err != nil {
					return err
				}
				b = bluge.NewBatch()
			}
		}
		if err := wr.Batch(b); err != nil {
			return err
		}
		rd, err := wr.Reader()
		if err != nil {
			return err
		}
		nq := 500
		emitEvery := 12
		for q := 0; q < nq; q++ {
			// an end point: open (zero time), or an instant
			pick := func() (int64, bool) {
				switch rng.Intn(7) {
				case 0:
					return 0, true
				case 1, 2:
					return hot[rng.Intn(len(hot))], false
				case 3:
					return vals[rng.Intn(len(vals))] + int64(rng.Intn(3)) - 1, false
				default:
					return vals[rng.Intn(len(vals))], false
				}
			}
			a, aOpen := pick()
			bb, bOpen := pick()
			il, ih := rng.Intn(2) == 0, rng.Intn(2) == 0
			var st, en time.Time
			lo, hi := math.Inf(-1), math.Inf(1)
			if !aOpen {
				st = time.Unix(0, a)
				lo = numeric.Int64ToFloat64(a)
			}
			if !bOpen {
				en = time.Unix(0, bb)
				hi = numeric.Int64ToFloat64(bb)
			}
			if aOpen && bOpen {
				continue // Validate() rejects a range with no end point
			}
			qdesc := map[string]interface{}{"start_ns": a, "start_open": aOpen, "end_ns": bb, "end_open": bOpen, "il": il, "ih": ih}
			w.OracleEval(1)
			if blown, key := rangeWouldBlowUp(lo, hi, il, ih); blown {
				w.OracleFail(key, "date range query would enumerate a practically unbounded number of candidate terms", qdesc)
				w.Count("dateq_skipped_blowup", 1)
				continue
			}
			qq := bluge.NewDateRangeInclusiveQuery(st, en, il, ih).SetField("d")
			got := make([]bool, n)
			var serr error
			fin, pan := cq.Guard(20*time.Second, func() {
				it, err := rd.Search(context.Background(), bluge.NewAllMatches(qq))
				if err != nil {
					serr = fmt.Errorf("search: %w", err)
					return
				}
				m, err := it.Next()
				for err == nil && m != nil {
					var id string
					m.VisitStoredFields(func(field string, value []byte) bool {
						if field == "_id" {
							id = string(value)
						}
						return true
					})
					var k int
					fmt.Sscanf(id, "%d", &k)
					if got[k] {
						w.OracleFail("range-dup", "document returned twice", id)
					}
					got[k] = true
					m, err = it.Next()
				}
				serr = err
			})
			if !fin {
				w.Abort("range-hang", "date range query did not return within 20s although its term enumeration is small", qdesc)
			}
			if pan != nil {
				w.OracleFail("range-panic", fmt.Sprint(pan), qdesc)
				continue
			}
			if serr != nil {
				return serr
			}
			obs := make([]string, n)
			nm := 0
			for i, v := range vals {
				obs[i] = cq.B(got[i])
				if got[i] {
					nm++
				}
				// oracle: the property itself — v lies in the interval with the stated inclusivity
				ge := aOpen || a < v || (il && a == v)
				le := bOpen || v < bb || (ih && bb == v)
				w.OracleEval(1)
				if got[i] != (ge && le) {
					key := "daterange-exact"
					switch {
					case (!aOpen && a == nanosNegInfAlias) || (!bOpen && bb == nanosPosInfAlias):
						// the end point's float image is an infinity: read as an open end
						key = "daterange-inf-alias"
					case v == math.MaxInt64 && ((!aOpen && !il && a == math.MaxInt64) || (bOpen && !ih)):
						// exclusive ends are min+1 / max-1 on int64: guard at the extreme, open end minus one
						key = "range-extreme-instant"
					case v == math.MinInt64 && ((!bOpen && !ih && bb == math.MinInt64) || (aOpen && !il)):
						key = "range-extreme-instant"
					}
					w.OracleFail(key, fmt.Sprintf("doc instant %d ns matched=%v", v, got[i]),
						map[string]interface{}{"start_ns": a, "start_open": aOpen, "end_ns": bb, "end_open": bOpen, "il": il, "ih": ih, "v": v})
				}
			}
			if q%emitEvery != 0 {
				continue
			}
			loBits, hiBits := uint64(0xfff0000000000000), uint64(0x7ff0000000000000)
			if !aOpen {
				loBits = i2fBits(a)
			}
			if !bOpen {
				hiBits = i2fBits(bb)
			}
			w.Add(fmt.Sprintf("CDateQ %s %s %s %s %s %s", cq.U(loBits), cq.U(hiBits), cq.B(il), cq.B(ih), cq.ZList(vals), cq.List(obs)),
				"dateq", nm > 0 && nm < n, qdesc)
		}
		rd.Close()
		wr.Close()
	}
	return nil
}
