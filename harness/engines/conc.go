package engines

// Engine conc (C15): mixed concurrent use of a real Writer/Reader under the Go race
// detector (this engine is built with -race: lib/specs/C15.py sets race=True) with seeded
// schedule perturbation injected through the public seams (a wrapping index.Directory,
// a wrapping SegmentPlugin, EventCallback).
//
// Every scenario runs in a CHILD process (re-exec of os.Args[0]) with
// GORACE="halt_on_error=1 exitcode=66 log_path=...": a race report ends the child with exit
// code 66 and is an oracle failure `data-race:<site>`.  Close is guarded by a 90 s timeout
// (`close-hang`, goroutine dump attached).  After Close the index is re-opened and the
// content is compared with the acknowledged batches.  Scenarios of kind "trace" record the
// control-point events of the persister / merger / closer goroutines; the recorded sequence
// is a correspondence case for Conc/ConcCorr.v (it must be a path of the skeleton).

import (
	"context"
	"encoding/json"
	"fmt"
	"io"
	"math/rand"
	"os"
	"os/exec"
	"path/filepath"
	"reflect"
	"regexp"
	"runtime"
	"runtime/pprof"
	"sort"
	"strings"
	"sync"
	"sync/atomic"
	"syscall"
	"time"

	"github.com/RoaringBitmap/roaring"
	"github.com/blugelabs/bluge"
	"github.com/blugelabs/bluge/index"
	"github.com/blugelabs/bluge/index/mergeplan"
	segment "github.com/blugelabs/bluge_segment_api"
	iceV1 "github.com/blugelabs/ice"
	iceV2 "github.com/blugelabs/ice/v2"

	"verif/harness/cq"
)

func init() { Registry["conc"] = runConc }

// ---------------------------------------------------------------- scenario description

type concScenario struct {
	K          int    `json:"k"`
	Kind       string `json:"kind"` // race | trace | pipclose
	Seed       int64  `json:"seed"`
	Dir        string `json:"dir"` // fs | mem
	Path       string `json:"path"`
	Unsafe     bool   `json:"unsafe"`
	IceV2      bool   `json:"ice_v2"`
	Batchers   int    `json:"batchers"`
	Batches    int    `json:"batches"` // per batcher
	DocsPer    int    `json:"docs_per"`
	Searchers  int    `json:"searchers"`
	Shared     int    `json:"shared_reader_searchers"`
	StatsCalls bool   `json:"stats"`
	NapMS      int    `json:"nap_ms"`
	NapUnder   int    `json:"nap_under_files"`
	MinMemMrg  int    `json:"min_mem_merge"`
	SmallMerge bool   `json:"small_merge_plan"`
	CloseDelay int    `json:"close_delay_us"`
	HoldReader bool   `json:"hold_reader_across_close"`
	Perturb    int    `json:"perturb_permille"`
	SlowPersMS int    `json:"slow_persist_ms"`  // pipclose: keep the persister behind the callers
	Acquirers  int    `json:"reader_acquirers"` // goroutines that only do Writer.Reader()+check+Close
}

type concResult struct {
	Scenario   concScenario `json:"scenario"`
	Events     []string     `json:"events,omitempty"`
	Closed     bool         `json:"closed"`
	CloseMS    int64        `json:"close_ms"`
	CloseHang  bool         `json:"close_hang"`
	Dump       string       `json:"dump,omitempty"`
	Acked      int          `json:"acked_batches"`
	Introduced int          `json:"introduced_batches"`
	Searches   int          `json:"searches"`
	StoredLoad int          `json:"stored_loads"`
	ReaderGets int          `json:"reader_gets"`
	LifeChecks int          `json:"open_reader_segment_checks"`
	StatsN     int          `json:"stats_calls"`
	Merges     int          `json:"merge_intros"`
	Persists   int          `json:"persist_rounds"`
	PipFired   bool         `json:"pip_trigger_fired"`
	Problems   []string     `json:"problems,omitempty"` // property failures seen by the child
	Done       bool         `json:"done"`
	WallMS     int64        `json:"wall_ms"`
	Phase1MS   int64        `json:"phase1_ms"`
}

// ---------------------------------------------------------------- parent

func runConc(o Opts) error {
	if len(o.Args) >= 2 && o.Args[0] == "child" {
		return concChild(o.Args[1])
	}
	w := cq.New(o.Out, "From Bluge Require Import Conc.Skeleton Conc.ConcCorr.", "case", 1)
	w.Samples = []interface{}{} // never `null` in stats.json, also when every scenario fails its oracle
	defer w.Close()
	rng := rand.New(rand.NewSource(o.Seed))
	nRace, nTrace, nPip, nLife := 6, 5, 4, 2
	if o.Thorough() {
		nRace, nTrace, nPip, nLife = 100, 50, 50, 40
	}
	var scs []concScenario
	mk := func(kind string) concScenario {
		k := len(scs)
		sc := concScenario{K: k, Kind: kind, Seed: rng.Int63(), Dir: "fs", Unsafe: rng.Intn(3) == 0, IceV2: rng.Intn(3) == 0,
			Batchers: 2 + rng.Intn(7), Batches: 2 + rng.Intn(5), DocsPer: 1 + rng.Intn(4), Searchers: 1 + rng.Intn(3),
			Shared: 2 + rng.Intn(3), StatsCalls: true, SmallMerge: rng.Intn(4) != 0, CloseDelay: rng.Intn(4000),
			HoldReader: rng.Intn(2) == 0, Perturb: 50 + rng.Intn(250)}
		if rng.Intn(4) == 0 {
			sc.Dir = "mem"
		}
		switch rng.Intn(4) {
		case 0:
			sc.NapMS, sc.NapUnder = 1+rng.Intn(3), 1000
		case 1:
			sc.NapMS, sc.NapUnder = 0, 2+rng.Intn(4) // catch-up loop of pausePersisterForMergerCatchUp
		default:
			sc.NapMS, sc.NapUnder = 0, 1000
		}
		sc.MinMemMrg = []int{2, 2, 3, 1000}[rng.Intn(4)]
		if rng.Intn(3) == 0 {
			sc.CloseDelay = 0
		}
		sc.Acquirers = rng.Intn(4)
		sc.Path = filepath.Join(o.Out, fmt.Sprintf("sc_%d", k))
		return sc
	}
	if len(o.Args) >= 2 && o.Args[0] == "only" { // debugging aid: harness conc ... only pipclose
		switch o.Args[1] {
		case "race":
			nTrace, nPip, nLife = 0, 0, 0
		case "trace":
			nRace, nPip, nLife = 0, 0, 0
		case "pipclose":
			nRace, nTrace, nLife = 0, 0, 0
			nPip *= 3
		case "lifetime":
			nRace, nTrace, nPip = 0, 0, 0
			nLife *= 3
		}
	}
	for i := 0; i < nRace; i++ {
		scs = append(scs, mk("race"))
	}
	for i := 0; i < nTrace; i++ {
		sc := mk("trace")
		if sc.Batchers > 3 {
			sc.Batchers = 2 + sc.Batchers%2
		}
		if sc.Batches > 4 {
			sc.Batches = 4
		}
		scs = append(scs, sc)
	}
	for i := 0; i < nLife; i++ {
		// reader acquisition against frequent root replacement: an OPEN reader must never contain
		// a segment whose handle has been released (reference hand-off of the root)
		sc := mk("lifetime")
		sc.Unsafe, sc.Batchers, sc.Batches, sc.DocsPer = true, 2, 30+rng.Intn(20), 1
		sc.Searchers, sc.Shared, sc.Acquirers, sc.HoldReader = 1, 2, 12, false
		sc.NapMS, sc.NapUnder, sc.SmallMerge = 0, 1000, true
		sc.Perturb = 20 + rng.Intn(60)
		scs = append(scs, sc)
	}
	for i := 0; i < nPip; i++ {
		sc := mk("pipclose")
		sc.Unsafe, sc.Dir, sc.MinMemMrg = true, "fs", 1000
		sc.NapMS, sc.NapUnder = 0, 1000
		sc.SlowPersMS = 2 + rng.Intn(4)
		sc.Batchers, sc.Batches, sc.Searchers = 2+rng.Intn(3), 2+rng.Intn(3), 1
		scs = append(scs, sc)
	}

	results := make([]*concChildOutcome, len(scs))
	par := 7
	sem := make(chan struct{}, par)
	var wg sync.WaitGroup
	for i := range scs {
		wg.Add(1)
		sem <- struct{}{}
		go func(i int) {
			defer wg.Done()
			defer func() { <-sem }()
			results[i] = concRunChild(scs[i])
		}(i)
	}
	wg.Wait()

	for i, out := range results {
		sc := scs[i]
		w.Count("scenario:"+sc.Kind, 1)
		w.Count("dir:"+sc.Dir, 1)
		if sc.Unsafe {
			w.Count("unsafe_batches", 1)
		}
		w.OracleEval(1) // race detector verdict for this schedule
		input := map[string]interface{}{"scenario": sc, "exit": out.exit}
		if out.raceLog != "" {
			key, head := concRaceKey(out.raceLog)
			input["race_report_head"] = head
			w.OracleFail("data-race:"+key, "the Go race detector reported a data race", input)
			continue
		}
		if out.timedOut {
			input["goroutines"] = concTrim(out.stderr, 6000)
			w.OracleFail("scenario-hang", "the scenario did not finish within its time limit", input)
			continue
		}
		res := out.res
		if res == nil || !res.Done {
			input["stderr"] = concTrim(out.stderr, 4000)
			if res != nil && res.CloseHang {
				input["goroutines"] = concTrim(res.Dump, 8000)
				w.OracleEval(1)
				w.OracleFail("close-hang", "Writer.Close did not return within 90s although every caller had returned", input)
				continue
			}
			w.OracleFail("crash:"+concCrashKey(out.stderr), "the scenario process ended abnormally", input)
			continue
		}
		w.OracleEval(1 + res.Acked) // Close terminated; every acknowledged batch checked after reopen
		w.Count("batches_introduced", res.Introduced)
		w.Count("batches_acked", res.Acked)
		w.Count("searches", res.Searches)
		w.Count("stored_field_loads", res.StoredLoad)
		w.Count("reader_acquisitions", res.ReaderGets)
		w.Count("open_reader_segment_checks", res.LifeChecks)
		w.OracleEval(res.LifeChecks)
		w.Count("stats_calls", res.StatsN)
		w.Count("merge_introductions", res.Merges)
		w.Count("persist_rounds", res.Persists)
		fmt.Fprintf(os.Stderr, "conc: scenario %d %s dir=%s unsafe=%v batchers=%d batches=%d wall=%dms phase1=%dms close=%dms events=%d\n",
			sc.K, sc.Kind, sc.Dir, sc.Unsafe, sc.Batchers, sc.Batches, res.WallMS, res.Phase1MS, res.CloseMS, len(res.Events))
		if res.PipFired {
			w.Count("close_during_introducePersist", 1)
		}
		for _, p := range res.Problems {
			key := p
			if j := strings.Index(p, ":"); j > 0 {
				key = p[:j]
			}
			input["problem"] = p
			w.OracleFail(key, p, input)
		}
		if sc.Kind == "trace" {
			terms := make([]string, len(res.Events))
			copy(terms, res.Events)
			ctor := "CTrace"
			if res.Closed {
				ctor = "CTraceClosed"
			}
			nontriv := res.Merges > 0 && res.Persists > 1
			w.Add(fmt.Sprintf("%s %s", ctor, cq.List(terms)), "trace", nontriv,
				map[string]interface{}{"scenario": sc, "events": len(res.Events), "merges": res.Merges, "persists": res.Persists})
		}
		os.RemoveAll(sc.Path)
	}
	return nil
}

type concChildOutcome struct {
	exit     int
	timedOut bool
	stderr   string
	raceLog  string
	res      *concResult
}

func concTrim(s string, n int) string {
	if len(s) > n {
		return s[:n] + "\n...[truncated]"
	}
	return s
}

func concRunChild(sc concScenario) *concChildOutcome {
	out := &concChildOutcome{}
	os.RemoveAll(sc.Path)
	if err := os.MkdirAll(sc.Path, 0o755); err != nil {
		out.stderr = err.Error()
		out.exit = -1
		return out
	}
	scFile := filepath.Join(sc.Path, "scenario.json")
	b, _ := json.Marshal(sc)
	os.WriteFile(scFile, b, 0o644)
	cmd := exec.Command(os.Args[0], "conc", "-seed", fmt.Sprint(sc.Seed), "-tier", "quick", "-out", sc.Path, "child", scFile)
	raceBase := filepath.Join(sc.Path, "race")
	cmd.Env = append(os.Environ(), "GORACE=halt_on_error=1 exitcode=66 log_path="+raceBase, "GOTRACEBACK=all")
	var stderr strings.Builder
	cmd.Stderr = &stderr
	cmd.Stdout = &stderr
	if err := cmd.Start(); err != nil {
		out.stderr = err.Error()
		out.exit = -1
		return out
	}
	done := make(chan error, 1)
	go func() { done <- cmd.Wait() }()
	select {
	case err := <-done:
		if err != nil {
			if ee, ok := err.(*exec.ExitError); ok {
				out.exit = ee.ExitCode()
			} else {
				out.exit = -1
			}
		}
	case <-time.After(600 * time.Second):
		out.timedOut = true
		cmd.Process.Signal(syscall.SIGQUIT) // goroutine dump on stderr
		select {
		case <-done:
		case <-time.After(10 * time.Second):
			cmd.Process.Kill()
			<-done
		}
	}
	out.stderr = stderr.String()
	logs, _ := filepath.Glob(raceBase + ".*")
	for _, l := range logs {
		if data, err := os.ReadFile(l); err == nil && strings.Contains(string(data), "DATA RACE") {
			out.raceLog = string(data)
			break
		}
	}
	if out.raceLog == "" && (out.exit == 66 || strings.Contains(out.stderr, "WARNING: DATA RACE")) {
		out.raceLog = out.stderr
		if !strings.Contains(out.raceLog, "DATA RACE") {
			out.raceLog = "DATA RACE (exit code 66, no report captured)\n" + out.stderr
		}
	}
	if data, err := os.ReadFile(filepath.Join(sc.Path, "result.json")); err == nil {
		var r concResult
		if json.Unmarshal(data, &r) == nil {
			out.res = &r
		}
	}
	return out
}

var concFrameRe = regexp.MustCompile(`(?m)^\s{2}(\S+)\(`)

// concRaceKey names a race report by the innermost bluge (or ice) functions of its two
// stacks, so that a known finding can be keyed by its call sites.
func concRaceKey(log string) (key string, head string) {
	i := strings.Index(log, "WARNING: DATA RACE")
	if i < 0 {
		return "unparsed", concTrim(log, 1500)
	}
	rep := log[i:]
	if j := strings.Index(rep[1:], "=================="); j > 0 {
		rep = rep[:j+1]
	}
	head = concTrim(rep, 3000)
	var sites []string
	for _, blk := range strings.Split(rep, "\n\n") {
		blk = strings.TrimPrefix(blk, "WARNING: DATA RACE\n")
		first := strings.SplitN(blk, "\n", 2)[0]
		if !(strings.Contains(first, " by goroutine") || strings.Contains(first, " by main goroutine")) {
			continue
		}
		site := ""
		for _, m := range concFrameRe.FindAllStringSubmatch(blk, -1) {
			fn := m[1]
			if strings.Contains(fn, "blugelabs/") || strings.Contains(fn, "RoaringBitmap/") {
				fn = fn[strings.LastIndex(fn, "/")+1:]
				site = fn
				break
			}
		}
		if site == "" {
			site = "?"
		}
		sites = append(sites, site)
		if len(sites) == 2 {
			break
		}
	}
	sort.Strings(sites)
	return strings.Join(sites, "|"), head
}

func concCrashKey(stderr string) string {
	for _, l := range strings.Split(stderr, "\n") {
		l = strings.TrimSpace(l)
		if strings.HasPrefix(l, "panic:") || strings.HasPrefix(l, "fatal error:") || strings.Contains(l, "SIGSEGV") {
			if len(l) > 80 {
				l = l[:80]
			}
			return l
		}
	}
	return "unknown"
}

// ---------------------------------------------------------------- child: instrumentation

type concEnv struct {
	sc           concScenario
	record       bool
	mu           sync.Mutex // only used by scenarios that record (adds happens-before edges)
	events       []string
	rngI         uint64 // perturbation state owned by the introducer goroutine
	rngP         uint64 // ... by the persister goroutine
	rngM         uint64 // ... by the merger goroutine
	armed        int32  // pipclose: fire Close at the next Count() inside introducePersist
	probMu       sync.Mutex
	problems     []string
	tracks       sync.Map // *segment.Data -> *concTrack (Directory.Load -> plugin.Load)
	closeNow     chan struct{}
	closeStarted chan struct{} // closed by the CloseStart event
	pipFired     int32
	merges       int64
	persists     int64
	chill        atomic.Value // *index.Writer seen through EventCallback
}

func (e *concEnv) problem(s string) {
	key := s
	if j := strings.Index(s, ":"); j > 0 {
		key = s[:j]
	}
	e.probMu.Lock()
	n := 0
	for _, p := range e.problems {
		if strings.HasPrefix(p, key+":") {
			n++
		}
	}
	if n < 2 && len(e.problems) < 20 { // at most two reports per kind of problem
		e.problems = append(e.problems, s)
	}
	e.probMu.Unlock()
}

// concTrack wraps the io.Closer of a loaded segment: the index calls Close when the last
// reference on the segment is dropped (closeOnLastRefCounter).
type concTrack struct {
	inner  io.Closer
	id     uint64
	closed int32
	e      *concEnv
}

func (t *concTrack) Close() error {
	n := atomic.AddInt32(&t.closed, 1)
	if n > 1 {
		t.e.problem(fmt.Sprintf("segment-handle-closed-twice: the handle of segment %d was released %d times", t.id, n))
		return nil
	}
	if t.inner != nil {
		return t.inner.Close()
	}
	return nil
}

// concReleased describes the first segment of an OPEN reader whose handle has been released.
func concReleased(snap *index.Snapshot) string {
	for _, ss := range snap.Segments() {
		g, ok := ss.(interface{ Segment() segment.Segment })
		if !ok {
			continue
		}
		w := reflect.ValueOf(g.Segment())
		if w.Kind() != reflect.Ptr || w.IsNil() || w.Elem().Kind() != reflect.Struct {
			continue
		}
		f := w.Elem().FieldByName("Segment") // segmentWrapper embeds segment.Segment
		if !f.IsValid() || !f.CanInterface() {
			continue
		}
		cs, ok := f.Interface().(*concSeg)
		if !ok || cs.tc == nil {
			continue
		}
		if n := atomic.LoadInt32(&cs.tc.closed); n != 0 {
			return fmt.Sprintf("segment %d released %d time(s)", ss.ID(), n)
		}
	}
	return ""
}

// role of the calling goroutine, from its stack
func concRole() (role string, inIntroducePersist bool) {
	var pcs [64]uintptr
	n := runtime.Callers(3, pcs[:])
	frames := runtime.CallersFrames(pcs[:n])
	role = "U"
	for {
		f, more := frames.Next()
		fn := f.Function
		switch {
		case strings.HasSuffix(fn, "index.(*Writer).introducePersist"):
			inIntroducePersist = true
		case strings.HasSuffix(fn, "index.(*Writer).introducerLoop"):
			return "I", inIntroducePersist
		case strings.HasSuffix(fn, "index.(*Writer).persisterLoop"):
			return "P", inIntroducePersist
		case strings.HasSuffix(fn, "index.(*Writer).mergerLoop"):
			return "M", inIntroducePersist
		case strings.HasSuffix(fn, "index.(*Writer).close"):
			return "C", inIntroducePersist
		case strings.HasSuffix(fn, "index.OpenWriter"):
			return "O", inIntroducePersist
		}
		if !more {
			break
		}
	}
	return role, inIntroducePersist
}

func splitmix(x *uint64) uint64 {
	*x += 0x9E3779B97F4A7C15
	z := *x
	z = (z ^ (z >> 30)) * 0xBF58476D1CE4E5B9
	z = (z ^ (z >> 27)) * 0x94D049BB133111EB
	return z ^ (z >> 31)
}

// perturb injects a yield or a short sleep.  The three loops use goroutine-owned PRNG state
// (no shared memory, so no extra happens-before edges); other goroutines derive the
// decision from the clock.
func (e *concEnv) perturb(role string) {
	var r uint64
	switch role {
	case "I":
		r = splitmix(&e.rngI)
	case "P":
		r = splitmix(&e.rngP)
	case "M":
		r = splitmix(&e.rngM)
	default:
		x := uint64(time.Now().UnixNano()) ^ uint64(e.sc.Seed)
		r = splitmix(&x)
	}
	if int(r%1000) >= e.sc.Perturb {
		return
	}
	switch (r >> 10) % 8 {
	case 0, 1, 2, 3:
		runtime.Gosched()
	case 4, 5:
		time.Sleep(time.Duration((r>>16)%200) * time.Microsecond)
	case 6:
		time.Sleep(time.Duration((r>>16)%1500) * time.Microsecond)
	default:
		for i := 0; i < 3; i++ {
			runtime.Gosched()
		}
	}
}

func (e *concEnv) rec(role, ev string) {
	if !e.record {
		return
	}
	var o string
	switch role + ":" + ev {
	case "P:stats":
		o = "OP_Stats"
	case "P:persist-seg":
		o = "OP_PersistSeg"
	case "P:load-seg":
		o = "OP_LoadSeg"
	case "P:persist-snap":
		o = "OP_PersistSnap"
	case "P:remove":
		o = "OP_Remove"
	case "P:ev-persister-progress":
		o = "OP_EvPersisterProgress"
	case "M:persist-seg":
		o = "OM_PersistSeg"
	case "M:load-seg":
		o = "OM_LoadSeg"
	case "M:ev-merge-start":
		o = "OM_EvMergeStart"
	case "M:ev-merge-intro":
		o = "OM_EvMergeIntro"
	case "M:ev-merger-progress":
		o = "OM_EvMergerProgress"
	case "C:ev-close-start":
		o = "OC_EvCloseStart"
	case "C:unlock":
		o = "OC_Unlock"
	case "C:ev-close":
		o = "OC_EvClose"
	default:
		return
	}
	e.mu.Lock()
	e.events = append(e.events, o)
	e.mu.Unlock()
}

// ---- wrapping Directory

type concDir struct {
	inner index.Directory
	e     *concEnv
}

func (d *concDir) Setup(ro bool) error { return d.inner.Setup(ro) }
func (d *concDir) List(kind string) ([]uint64, error) {
	role, _ := concRole()
	d.e.perturb(role)
	return d.inner.List(kind)
}
func (d *concDir) Load(kind string, id uint64) (*segment.Data, io.Closer, error) {
	role, _ := concRole()
	d.e.perturb(role)
	if role == "P" && kind == index.ItemKindSegment && atomic.CompareAndSwapInt32(&d.e.armed, 1, 2) {
		// pipclose: the persister is loading the segments it is about to hand to the introducer
		// (prepareIntroducePersist); let Close begin a few milliseconds from now
		select {
		case d.e.closeNow <- struct{}{}:
		default:
		}
	}
	data, c, err := d.inner.Load(kind, id)
	if err == nil && kind == index.ItemKindSegment {
		d.e.rec(role, "load-seg")
		t := &concTrack{inner: c, id: id, e: d.e}
		d.e.tracks.Store(data, t)
		d.e.perturb(role)
		return data, t, nil
	}
	d.e.perturb(role)
	return data, c, err
}
func (d *concDir) Persist(kind string, id uint64, w index.WriterTo, closeCh chan struct{}) error {
	role, _ := concRole()
	d.e.perturb(role)
	if role == "P" && d.e.sc.SlowPersMS > 0 {
		time.Sleep(time.Duration(d.e.sc.SlowPersMS) * time.Millisecond)
	}
	err := d.inner.Persist(kind, id, w, closeCh)
	if err == nil {
		if kind == index.ItemKindSegment {
			d.e.rec(role, "persist-seg")
		} else {
			d.e.rec(role, "persist-snap")
			if role == "P" {
				atomic.AddInt64(&d.e.persists, 1)
			}
		}
	}
	d.e.perturb(role)
	return err
}
func (d *concDir) Remove(kind string, id uint64) error {
	role, _ := concRole()
	d.e.perturb(role)
	err := d.inner.Remove(kind, id)
	if err == nil {
		d.e.rec(role, "remove")
	}
	return err
}
func (d *concDir) Stats() (uint64, uint64) {
	role, _ := concRole()
	if role != "U" {
		d.e.perturb(role)
	}
	a, b := d.inner.Stats()
	d.e.rec(role, "stats")
	d.e.perturb(role)
	return a, b
}
func (d *concDir) Sync() error { return d.inner.Sync() }
func (d *concDir) Lock() error { return d.inner.Lock() }
func (d *concDir) Unlock() error {
	role, _ := concRole()
	err := d.inner.Unlock()
	if err == nil {
		d.e.rec(role, "unlock")
	}
	return err
}

// ---- wrapping segment plugin

type concSeg struct {
	segment.Segment
	e  *concEnv
	tc *concTrack // handle of the backing item (nil for segments built in memory)
}

func (s *concSeg) checkUse(op string) {
	if s.tc != nil && atomic.LoadInt32(&s.tc.closed) != 0 {
		s.e.problem(fmt.Sprintf("use-of-released-segment: %s on segment %d after its handle was released", op, s.tc.id))
	}
}

func (s *concSeg) Count() uint64 {
	role, inPip := concRole()
	if role == "I" && inPip && atomic.LoadInt32(&s.e.armed) == 2 {
		// targeted schedule: the persister has triggered Close (see concDir.Load) and the
		// introducer is inside introducePersist; hold it until Close has begun.  Nothing is
		// signalled FROM the introducer, so its map accesses stay unordered with the persister's.
		select {
		case <-s.e.closeStarted:
		case <-time.After(100 * time.Millisecond):
		}
		time.Sleep(3 * time.Millisecond)
	}
	if role != "U" {
		s.e.perturb(role)
	}
	return s.Segment.Count()
}
func (s *concSeg) DocsMatchingTerms(t []segment.Term) (*roaring.Bitmap, error) {
	role, _ := concRole()
	s.e.perturb(role)
	s.checkUse("DocsMatchingTerms")
	return s.Segment.DocsMatchingTerms(t)
}
func (s *concSeg) Dictionary(field string) (segment.Dictionary, error) {
	s.e.perturb("U")
	s.checkUse("Dictionary")
	return s.Segment.Dictionary(field)
}
func (s *concSeg) VisitStoredFields(num uint64, v segment.StoredFieldVisitor) error {
	s.e.perturb("U")
	s.checkUse("VisitStoredFields")
	return s.Segment.VisitStoredFields(num, v)
}

func concUnwrap(segs []segment.Segment) []segment.Segment {
	out := make([]segment.Segment, len(segs))
	for i, s := range segs {
		if cs, ok := s.(*concSeg); ok {
			out[i] = cs.Segment
		} else {
			out[i] = s
		}
	}
	return out
}

func (e *concEnv) plugin(v2 bool) *index.SegmentPlugin {
	typ, ver := iceV1.Type, uint32(iceV1.Version)
	newF, loadF, mergeF := iceV1.New, iceV1.Load, iceV1.Merge
	if v2 {
		typ, ver = iceV2.Type, uint32(iceV2.Version)
		newF, loadF, mergeF = iceV2.New, iceV2.Load, iceV2.Merge
	}
	return &index.SegmentPlugin{
		Type: typ, Version: ver,
		New: func(results []segment.Document, normCalc func(string, int) float32) (segment.Segment, uint64, error) {
			s, n, err := newF(results, normCalc)
			if err != nil {
				return s, n, err
			}
			return &concSeg{Segment: s, e: e}, n, nil
		},
		Load: func(d *segment.Data) (segment.Segment, error) {
			role, _ := concRole()
			e.perturb(role)
			s, err := loadF(d)
			if err != nil {
				return s, err
			}
			cs := &concSeg{Segment: s, e: e}
			if t, ok := e.tracks.LoadAndDelete(d); ok {
				cs.tc = t.(*concTrack)
			}
			return cs, nil
		},
		Merge: func(segs []segment.Segment, drops []*roaring.Bitmap, mergeBufferSize int) segment.Merger {
			role, _ := concRole()
			e.perturb(role)
			return mergeF(concUnwrap(segs), drops, mergeBufferSize)
		},
	}
}

// ---------------------------------------------------------------- child: the scenario

var concWords = []string{"alpha", "beta", "gamma", "delta", "omega", "sigma", "kappa", "lambda"}

type concBatchPlan struct {
	inserts []string // ids
	deletes []string
	updates []string
}

func concChild(scFile string) error {
	data, err := os.ReadFile(scFile)
	if err != nil {
		return err
	}
	var sc concScenario
	if err := json.Unmarshal(data, &sc); err != nil {
		return err
	}
	res := &concResult{Scenario: sc}
	t0 := time.Now()
	if pf := os.Getenv("CONC_PROF"); pf != "" {
		if f, err := os.Create(pf); err == nil {
			pprof.StartCPUProfile(f)
			defer pprof.StopCPUProfile()
		}
	}
	e := &concEnv{sc: sc, record: sc.Kind == "trace", rngI: uint64(sc.Seed) ^ 1, rngP: uint64(sc.Seed) ^ 2, rngM: uint64(sc.Seed) ^ 3,
		closeNow: make(chan struct{}, 1), closeStarted: make(chan struct{})}
	writeRes := func() {
		e.probMu.Lock()
		defer e.probMu.Unlock()
		res.Problems = append([]string(nil), e.problems...)
		res.WallMS = time.Since(t0).Milliseconds()
		res.PipFired = atomic.LoadInt32(&e.pipFired) == 1
		b, _ := json.Marshal(res)
		os.WriteFile(filepath.Join(sc.Path, "result.json"), b, 0o644)
	}
	rng := rand.New(rand.NewSource(sc.Seed))
	// other engines of this harness install a global trace hook that runs under the writer's
	// root lock; this engine must observe the uninstrumented writer
	index.VerifTrace = nil

	var inner index.Directory
	idxPath := filepath.Join(sc.Path, "idx")
	if sc.Dir == "fs" {
		inner = index.NewFileSystemDirectory(idxPath)
	} else {
		inner = index.NewInMemoryDirectory()
	}
	mkConfig := func() bluge.Config {
		cfg := bluge.DefaultConfig(idxPath)
		ic := cfg.VerifIndexConfig()
		ic.DirectoryFunc = func() index.Directory { return &concDir{inner: inner, e: e} }
		ic = ic.WithSegmentPlugin(e.plugin(false)).WithSegmentPlugin(e.plugin(true))
		if sc.IceV2 {
			ic = ic.WithSegmentType(iceV2.Type).WithSegmentVersion(uint32(iceV2.Version))
		}
		if sc.Unsafe {
			ic = ic.WithUnsafeBatches()
		}
		ic.PersisterNapTimeMSec = sc.NapMS
		ic.PersisterNapUnderNumFiles = sc.NapUnder
		ic.MinSegmentsForInMemoryMerge = sc.MinMemMrg
		if sc.SmallMerge {
			ic.MergePlanOptions = mergeplan.Options{MaxSegmentsPerTier: 2, MaxSegmentSize: 1 << 30, TierGrowth: 2.0,
				SegmentsPerMergeTask: 2, FloorSegmentSize: 2, ReclaimDeletesWeight: 2.0}
		}
		ic.AsyncError = func(err error) {}
		ic.EventCallback = func(ev index.Event) {
			role, _ := concRole()
			if e.chill.Load() == nil && ev.Chill != nil {
				e.chill.Store(ev.Chill)
			}
			if role != "U" && role != "C" {
				// also BEFORE the event is recorded: the loops make effects visible to each other
				// (closed watcher channels) before they fire the event, and the skeleton must
				// accept the other goroutine's events that fall in between
				e.perturb(role)
			}
			switch ev.Kind {
			case index.EventKindPersisterProgress:
				e.rec(role, "ev-persister-progress")
			case index.EventKindMergeTaskIntroductionStart:
				e.rec(role, "ev-merge-start")
			case index.EventKindMergeTaskIntroduction:
				atomic.AddInt64(&e.merges, 1)
				e.rec(role, "ev-merge-intro")
			case index.EventKindMergerProgress:
				e.rec(role, "ev-merger-progress")
			case index.EventKindCloseStart:
				e.rec(role, "ev-close-start")
				close(e.closeStarted)
			case index.EventKindClose:
				e.rec(role, "ev-close")
			}
			if role != "U" && role != "C" {
				e.perturb(role)
			}
		}
		return cfg.VerifWithIndexConfig(ic)
	}
	cfg := mkConfig()
	writer, err := bluge.OpenWriter(cfg)
	if err != nil {
		e.problem("api-error: OpenWriter: " + err.Error())
		res.Done = true
		writeRes()
		return nil
	}

	// ---- plans: every batcher owns its id space; batch k inserts fresh ids, deletes / updates
	// ids of its own earlier batches
	plans := make([][]concBatchPlan, sc.Batchers)
	for g := range plans {
		var live []string
		for k := 0; k < sc.Batches; k++ {
			var p concBatchPlan
			for d := 0; d < sc.DocsPer; d++ {
				p.inserts = append(p.inserts, fmt.Sprintf("g%d-b%d-d%d", g, k, d))
			}
			if len(live) > 0 && rng.Intn(2) == 0 {
				j := rng.Intn(len(live))
				p.deletes = append(p.deletes, live[j])
				live = append(live[:j], live[j+1:]...)
			}
			if len(live) > 0 && rng.Intn(3) == 0 {
				p.updates = append(p.updates, live[rng.Intn(len(live))])
			}
			live = append(live, p.inserts...)
			plans[g] = append(plans[g], p)
		}
	}
	mkDoc := func(id string, g int, r *rand.Rand) *bluge.Document {
		txt := concWords[r.Intn(len(concWords))] + " " + concWords[r.Intn(len(concWords))] + " common"
		return bluge.NewDocument(id).
			AddField(bluge.NewKeywordField("g", fmt.Sprintf("g%d", g)).StoreValue()).
			AddField(bluge.NewTextField("t", txt).StoreValue()).
			AddField(bluge.NewKeywordField("v", id).StoreValue())
	}

	problem := e.problem
	introduced := make([]int32, sc.Batchers) // batches whose Batch() returned nil
	acked := make([]int32, sc.Batchers)      // highest k+1 acknowledged as persisted (contiguous by order of persistence)
	var searches, stored, readerGets, statsN int64

	search := func(r *bluge.Reader, lr *rand.Rand) {
		var q bluge.Query
		a, b := concWords[lr.Intn(len(concWords))], concWords[lr.Intn(len(concWords))]
		mode := ""
		switch lr.Intn(7) {
		case 0:
			q = bluge.NewTermQuery(a).SetField("t")
		case 1: // scored conjunction (OptimizeConjunction)
			q = bluge.NewBooleanQuery().AddMust(bluge.NewTermQuery(a).SetField("t"), bluge.NewTermQuery("common").SetField("t"))
		case 2: // unadorned conjunction (OptimizeConjunctionUnadorned)
			q = bluge.NewBooleanQuery().AddMust(bluge.NewTermQuery(a).SetField("t"), bluge.NewTermQuery(b).SetField("t"))
			mode = "none"
		case 3: // unadorned disjunction (OptimizeDisjunctionUnadorned)
			q = bluge.NewBooleanQuery().AddShould(bluge.NewTermQuery(a).SetField("t"), bluge.NewTermQuery(b).SetField("t"), bluge.NewTermQuery("common").SetField("t"))
			mode = "none"
		case 4:
			q = bluge.NewMatchQuery(a + " " + b).SetField("t")
		case 5:
			q = bluge.NewBooleanQuery().AddMust(bluge.NewTermQuery("common").SetField("t")).AddMustNot(bluge.NewTermQuery(a).SetField("t"))
			mode = "none"
		default:
			q = bluge.NewMatchAllQuery()
		}
		req := bluge.NewTopNSearch(5+lr.Intn(10), q)
		if mode != "" {
			req = req.SetScore(mode)
		}
		it, err := r.Search(context.Background(), req)
		if err != nil {
			problem("api-error: Search: " + err.Error())
			return
		}
		atomic.AddInt64(&searches, 1)
		for {
			m, err := it.Next()
			if err != nil {
				problem("api-error: Next: " + err.Error())
				return
			}
			if m == nil {
				break
			}
			var id string
			err = m.VisitStoredFields(func(field string, value []byte) bool {
				if field == "_id" {
					id = string(value)
				}
				return true
			})
			if err != nil {
				problem("api-error: VisitStoredFields: " + err.Error())
				return
			}
			atomic.AddInt64(&stored, 1)
			if id == "" {
				problem("api-error: a hit without a stored _id")
			}
		}
	}

	// ---- phase 1: concurrent API use
	var callers sync.WaitGroup // goroutines calling the Writer API (Batch, Reader, Stats)
	var readers sync.WaitGroup // goroutines that only search on readers they already hold
	stopSearch := make(chan struct{})
	var batchers sync.WaitGroup
	batchDone := make(chan struct{})
	var lifeChecks int64
	for a := 0; a < sc.Acquirers; a++ {
		callers.Add(1)
		go func(a int) {
			defer callers.Done()
			for n := 0; ; n++ {
				select {
				case <-batchDone:
					return
				default:
				}
				c, ok := e.chill.Load().(*index.Writer)
				if !ok || c == nil {
					runtime.Gosched()
					continue
				}
				snap, err := c.Reader()
				if err != nil || snap == nil {
					problem("api-error: index.Writer.Reader failed")
					return
				}
				atomic.AddInt64(&readerGets, 1)
				if msg := concReleased(snap); msg != "" {
					problem("reader-holds-released-segment: a reader just handed out by Writer.Reader contains " + msg)
					_ = snap.Close()
					return
				}
				if n%8 == a%8 {
					if _, err := snap.Count(); err != nil {
						problem("api-error: Snapshot.Count: " + err.Error())
					}
					runtime.Gosched()
					if msg := concReleased(snap); msg != "" {
						problem("reader-holds-released-segment: a reader that is still open contains " + msg)
						_ = snap.Close()
						return
					}
				}
				atomic.AddInt64(&lifeChecks, 1)
				_ = snap.Close()
				runtime.Gosched() // let the batching goroutines and the loops run
				if n%64 == 63 {
					time.Sleep(50 * time.Microsecond)
				}
			}
		}(a)
	}
	for g := 0; g < sc.Batchers; g++ {
		callers.Add(1)
		batchers.Add(1)
		go func(g int) {
			defer callers.Done()
			defer batchers.Done()
			lr := rand.New(rand.NewSource(sc.Seed + int64(g)*7919))
			for k, p := range plans[g] {
				b := bluge.NewBatch()
				for _, id := range p.deletes {
					b.Delete(bluge.Identifier(id))
				}
				for _, id := range p.updates {
					b.Update(bluge.Identifier(id), mkDoc(id, g, lr))
				}
				for _, id := range p.inserts {
					b.Insert(mkDoc(id, g, lr))
				}
				kk := int32(k + 1)
				if sc.Unsafe {
					b.SetPersistedCallback(func(err error) {
						if err == nil {
							for {
								old := atomic.LoadInt32(&acked[g])
								if old >= kk || atomic.CompareAndSwapInt32(&acked[g], old, kk) {
									break
								}
							}
						}
					})
				}
				if err := writer.Batch(b); err != nil {
					problem("api-error: Batch: " + err.Error())
					return
				}
				atomic.StoreInt32(&introduced[g], kk)
				if !sc.Unsafe {
					atomic.StoreInt32(&acked[g], kk)
				}
				if lr.Intn(3) == 0 {
					runtime.Gosched()
				}
			}
		}(g)
	}
	for s := 0; s < sc.Searchers; s++ {
		callers.Add(1)
		go func(s int) {
			defer callers.Done()
			lr := rand.New(rand.NewSource(sc.Seed + int64(s)*104729 + 13))
			for i := 0; i < 4+lr.Intn(5); i++ {
				r, err := writer.Reader()
				if err != nil {
					problem("api-error: Reader: " + err.Error())
					return
				}
				atomic.AddInt64(&readerGets, 1)
				// several goroutines search on this one reader (postings iterator recycling)
				var inner sync.WaitGroup
				for j := 0; j < sc.Shared; j++ {
					inner.Add(1)
					go func(j int) {
						defer inner.Done()
						lr2 := rand.New(rand.NewSource(sc.Seed + int64(s*100+i*10+j)))
						for n := 0; n < 4; n++ {
							search(r, lr2)
						}
					}(j)
				}
				inner.Wait()
				if _, err := r.Count(); err != nil {
					problem("api-error: Count: " + err.Error())
				}
				r.Close()
			}
		}(s)
	}
	if sc.StatsCalls {
		callers.Add(1)
		go func() {
			defer callers.Done()
			for i := 0; i < 100; i++ {
				if c, ok := e.chill.Load().(*index.Writer); ok && c != nil {
					st := c.Stats()
					_ = c.MemoryUsed()
					if st.TotBatches > uint64(sc.Batchers*sc.Batches) {
						problem("api-error: Stats reports more batches than were submitted")
					}
					atomic.AddInt64(&statsN, 1)
				}
				time.Sleep(200 * time.Microsecond)
			}
		}()
	}
	// a reader acquired now and searched across (and after) Close: readers hold their own references
	var held *bluge.Reader
	if sc.HoldReader {
		held, err = writer.Reader()
		if err != nil {
			problem("api-error: Reader: " + err.Error())
		} else {
			atomic.AddInt64(&readerGets, 1)
			for j := 0; j < 2; j++ {
				readers.Add(1)
				go func(j int) {
					defer readers.Done()
					lr := rand.New(rand.NewSource(sc.Seed + 555 + int64(j)))
					for n := 0; n < 80; n++ {
						select {
						case <-stopSearch:
							return
						default:
						}
						search(held, lr)
						time.Sleep(time.Duration(200+lr.Intn(800)) * time.Microsecond)
					}
				}(j)
			}
		}
	}
	go func() { batchers.Wait(); close(batchDone) }()
	callers.Wait() // every caller of the Writer API has returned
	// quiescent: the root must still hold every one of its segments
	if c, ok := e.chill.Load().(*index.Writer); ok && c != nil {
		if snap, err := c.Reader(); err == nil && snap != nil {
			if msg := concReleased(snap); msg != "" {
				problem("reader-holds-released-segment: after all callers returned the root contains " + msg)
			}
			atomic.AddInt64(&lifeChecks, 1)
			_ = snap.Close()
		}
	}
	res.Phase1MS = time.Since(t0).Milliseconds()

	// in-memory directories cannot be re-opened: take the final content through a reader now
	var final *bluge.Reader
	if sc.Dir == "mem" {
		final, err = writer.Reader()
		if err != nil {
			problem("api-error: Reader: " + err.Error())
		}
	}

	// ---- phase 2: Close (at a random moment; merges and persists may be in progress)
	closeDone := make(chan error, 1)
	closeStart := time.Now()
	if sc.Kind == "pipclose" {
		atomic.StoreInt32(&e.armed, 1)
		go func() {
			select {
			case <-e.closeNow:
				atomic.StoreInt32(&e.pipFired, 1)
				time.Sleep(time.Duration(2000+rng.Intn(5000)) * time.Microsecond)
			case <-time.After(300 * time.Millisecond): // the persister had nothing left to do
			}
			closeDone <- writer.Close()
		}()
	} else {
		if sc.CloseDelay > 0 {
			time.Sleep(time.Duration(sc.CloseDelay) * time.Microsecond)
		}
		go func() { closeDone <- writer.Close() }()
	}
	select {
	case err := <-closeDone:
		res.Closed = true
		res.CloseMS = time.Since(closeStart).Milliseconds()
		if err != nil {
			problem("api-error: Close: " + err.Error())
		}
	case <-time.After(90 * time.Second):
		res.CloseHang = true
		var sb strings.Builder
		pprof.Lookup("goroutine").WriteTo(&sb, 2)
		res.Dump = sb.String()
		for g := range acked {
			res.Acked += int(atomic.LoadInt32(&acked[g]))
		}
		writeRes()
		os.Exit(67)
	}
	if held != nil {
		time.Sleep(2 * time.Millisecond) // keep searching a little after Close
	}
	close(stopSearch)
	readers.Wait()
	if held != nil {
		held.Close()
	}

	// ---- phase 3: content check
	for g := range acked {
		res.Acked += int(atomic.LoadInt32(&acked[g]))
		res.Introduced += int(atomic.LoadInt32(&introduced[g]))
	}
	var rd *bluge.Reader
	if sc.Dir == "mem" {
		rd = final
	} else {
		e.record = false
		rd, err = bluge.OpenReader(mkConfig())
		if err != nil {
			if res.Acked > 0 {
				problem("acked-lost: the index does not reopen after Close: " + err.Error())
			}
			rd = nil
		}
	}
	if rd != nil {
		for g := 0; g < sc.Batchers; g++ {
			got := map[string]bool{}
			req := bluge.NewTopNSearch(10000, bluge.NewTermQuery(fmt.Sprintf("g%d", g)).SetField("g"))
			it, err := rd.Search(context.Background(), req)
			if err != nil {
				problem("api-error: Search after reopen: " + err.Error())
				continue
			}
			for {
				m, err := it.Next()
				if err != nil || m == nil {
					break
				}
				m.VisitStoredFields(func(field string, value []byte) bool {
					if field == "_id" {
						if got[string(value)] {
							problem("acked-lost: duplicate live document " + string(value))
						}
						got[string(value)] = true
					}
					return true
				})
			}
			lo := int(atomic.LoadInt32(&acked[g]))
			if sc.Dir == "mem" {
				lo = int(atomic.LoadInt32(&introduced[g]))
			}
			// the content must be the state after some prefix of this batcher's batches that
			// includes every acknowledged one
			ok := false
			state := map[string]bool{}
			for k := 0; k <= len(plans[g]); k++ {
				if k > 0 {
					p := plans[g][k-1]
					for _, id := range p.deletes {
						delete(state, id)
					}
					for _, id := range p.inserts {
						state[id] = true
					}
				}
				if k >= lo && len(state) == len(got) {
					same := true
					for id := range state {
						if !got[id] {
							same = false
							break
						}
					}
					if same {
						ok = true
						break
					}
				}
			}
			if !ok {
				ids := make([]string, 0, len(got))
				for id := range got {
					ids = append(ids, id)
				}
				sort.Strings(ids)
				problem(fmt.Sprintf("acked-lost: batcher %d: content after reopen %v is not the state after any prefix of its batches containing the %d acknowledged ones", g, ids, lo))
			}
		}
		rd.Close()
	}

	res.Searches = int(atomic.LoadInt64(&searches))
	res.StoredLoad = int(atomic.LoadInt64(&stored))
	res.ReaderGets = int(atomic.LoadInt64(&readerGets))
	res.LifeChecks = int(atomic.LoadInt64(&lifeChecks))
	res.StatsN = int(atomic.LoadInt64(&statsN))
	res.Merges = int(atomic.LoadInt64(&e.merges))
	res.Persists = int(atomic.LoadInt64(&e.persists))
	e.mu.Lock()
	res.Events = append([]string(nil), e.events...)
	e.mu.Unlock()
	res.Done = true
	writeRes()
	return nil
}
