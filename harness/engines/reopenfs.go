package engines

// reopenfs.go — child-process helper of the proto engines: a crash image materialised in a real
// file-system directory is opened by the real OpenWriter and OpenReader (default mmap loader) in a
// separate process, so that a fault (SIGSEGV on an unmapped region, makeslice panic, runaway
// allocation) is observed as a result instead of killing the engine.

import (
	"encoding/json"
	"fmt"
	"os"
	"os/exec"
	"path/filepath"
	"strconv"
	"strings"
	"syscall"
	"time"

	"github.com/blugelabs/bluge"
	"github.com/blugelabs/bluge/index/mergeplan"
)

func init() { Registry["reopen-fs"] = runReopenFS }

type reopenFSResult struct {
	WFail    bool
	WErr     string
	WEpoch   uint64
	WContent []DV
	RFail    bool
	REpoch   uint64
	RContent []DV
}

// child: harness reopen-fs -out <dir> <universe> <segver>
func runReopenFS(o Opts) error {
	if len(o.Args) < 2 {
		return fmt.Errorf("usage: reopen-fs -out DIR universe segver")
	}
	uni, _ := strconv.Atoi(o.Args[0])
	segver, _ := strconv.Atoi(o.Args[1])
	var universe []int
	for i := 0; i < uni; i++ {
		universe = append(universe, i, i+100)
	}
	var res reopenFSResult
	cfg := bluge.DefaultConfig(o.Out)
	ic := cfg.VerifIndexConfig()
	if segver == 2 {
		ic = ic.WithSegmentVersion(2)
	}
	ic.MergePlanOptions = mergeplan.Options{MaxSegmentsPerTier: 100000, MaxSegmentSize: 5000000, TierGrowth: 10, SegmentsPerMergeTask: 10,
		FloorSegmentSize: 2000, ReclaimDeletesWeight: 2, CalcBudget: func(int64, int64, *mergeplan.Options) int { return 1 << 30 }}
	ic.MinSegmentsForInMemoryMerge = 1 << 30
	cfg = cfg.VerifWithIndexConfig(ic)
	// reader first (it does not modify the directory)
	rd, err := bluge.OpenReader(cfg)
	if err != nil {
		res.RFail = true
	} else {
		ob := observeReader(rd, universe)
		rd.Close()
		res.REpoch, res.RContent = ob.Epoch, ob.docs()
	}
	wr, err := bluge.OpenWriter(cfg)
	if err != nil {
		res.WFail = true
		res.WErr = err.Error()
	} else {
		r, err := wr.Reader()
		if err == nil {
			ob := observeReader(r, universe)
			r.Close()
			res.WEpoch, res.WContent = ob.Epoch, ob.docs()
		}
		wr.Close()
	}
	b, _ := json.Marshal(res)
	fmt.Println("REOPENFS " + string(b))
	return nil
}

// reopenOnFS writes the image into a fresh directory and runs the child.  status: "ok", "crash: ..."
func reopenOnFS(files map[string][]byte, name string, universe int, segver uint32) (reopenFSResult, string) {
	dir := workDir("img-" + name)
	defer os.RemoveAll(dir)
	for k, v := range files {
		var id uint64
		kind := k[:4]
		fmt.Sscanf(k[5:], "%x", &id)
		if err := os.WriteFile(filepath.Join(dir, fmt.Sprintf("%012x%s", id, kind)), v, 0o644); err != nil {
			return reopenFSResult{}, "setup: " + err.Error()
		}
	}
	// a writer that died left its pid file behind (only its lock on it went away with the process)
	if err := os.WriteFile(filepath.Join(dir, "bluge.pid"), []byte("4194000\n"), 0o644); err != nil {
		return reopenFSResult{}, "setup: " + err.Error()
	}
	cmd := exec.Command(os.Args[0], "reopen-fs", "-out", dir, strconv.Itoa(universe), strconv.Itoa(int(segver)))
	cmd.Env = append(os.Environ(), "GOMEMLIMIT=1500MiB")
	var out strings.Builder
	cmd.Stdout = &out
	cmd.Stderr = &out
	cmd.SysProcAttr = &syscall.SysProcAttr{Setpgid: true}
	if err := cmd.Start(); err != nil {
		return reopenFSResult{}, "setup: " + err.Error()
	}
	done := make(chan error, 1)
	go func() { done <- cmd.Wait() }()
	var werr error
	select {
	case werr = <-done:
	case <-time.After(60 * time.Second):
		syscall.Kill(-cmd.Process.Pid, syscall.SIGKILL)
		<-done
		return reopenFSResult{}, "crash: reopening did not finish within 60s"
	}
	text := out.String()
	i := strings.LastIndex(text, "REOPENFS ")
	if werr != nil || i < 0 {
		tail := text
		if len(tail) > 600 {
			tail = tail[:600]
		}
		return reopenFSResult{}, fmt.Sprintf("crash: child exit %v: %s", werr, tail)
	}
	var res reopenFSResult
	line := text[i+len("REOPENFS "):]
	if nl := strings.IndexByte(line, '\n'); nl >= 0 {
		line = line[:nl]
	}
	if err := json.Unmarshal([]byte(line), &res); err != nil {
		return reopenFSResult{}, "crash: unparsable child output: " + err.Error()
	}
	return res, "ok"
}
