package engines

// plan_writer.go — C19 correspondence cases taken from a REAL index.Writer (part of engine `plan`).
// A writer with small MergePlanOptions indexes batches (inserts, updates, deletes); between two batches
// the harness waits until persister and merger are idle, so that no deletion arrives between the planning
// of a merge and its introduction (the sizes-only model of plan execution assumes that).  Recorded, in
// one ordered log: every replacement of the root (index.VerifTrace "root": segments with id, persisted,
// count, deleted), every merge introduction ("intro-merge": ids of the old segments, id and count of the
// new one), every call of the Options.CalcBudget / Options.ScoreSegments hooks (wrapping the defaults)
// and the merger's progress event.  From the log:
//   CPlanW: the planner's input = persisted segments of the root current at the CalcBudget call, the hook
//           log, and the tasks = the merges of persisted segments introduced before the merger's progress
//           event; the model must produce the same budget arguments, roster sequence and tasks.
//   CApply: root before a merge introduction, the merge, root after it  =  Plan.apply_task.

import (
	"context"
	"fmt"
	"math/rand"
	"sort"
	"sync"
	"time"

	"github.com/blugelabs/bluge"
	"github.com/blugelabs/bluge/index"
	"github.com/blugelabs/bluge/index/mergeplan"

	"verif/harness/cq"
)

type planWSeg struct {
	id        uint64
	persisted bool
	full      int64
	live      int64
}

type planWEvent struct {
	kind   string // root | merge | budget | score | progress
	segs   []planWSeg
	old    []uint64 // merge: ids of the old segments (sorted)
	oldMem bool     // merge: some old segment is not persisted (an in-memory merge of the persister)
	newID  uint64
	newCnt int64 // -1: no new segment
	bargs  [3]int64
	ids    []uint64
	key    int64
	nan    bool
}

type planWLog struct {
	mu     sync.Mutex
	events []planWEvent
}

func (l *planWLog) add(e planWEvent) {
	l.mu.Lock()
	l.events = append(l.events, e)
	l.mu.Unlock()
}
func (l *planWLog) size() int {
	l.mu.Lock()
	defer l.mu.Unlock()
	return len(l.events)
}

// planning: a plan has been started (CalcBudget hook) and the merger has not reported progress since
func (l *planWLog) planning() bool {
	l.mu.Lock()
	defer l.mu.Unlock()
	for i := len(l.events) - 1; i >= 0; i-- {
		switch l.events[i].kind {
		case "progress":
			return false
		case "budget", "score":
			return true
		}
	}
	return false
}

func planWSegs(vs []index.VerifSeg) []planWSeg {
	out := make([]planWSeg, len(vs))
	for i, v := range vs {
		out[i] = planWSeg{id: v.ID, persisted: v.Persisted, full: int64(v.Count), live: int64(v.Count) - int64(len(v.Deleted))}
	}
	return out
}

func planWCoq(segs []planWSeg, onlyPersisted bool) string {
	var it []string
	for _, s := range segs {
		if onlyPersisted && !s.persisted {
			continue
		}
		it = append(it, fmt.Sprintf("(%s,%s,%s)", cq.U(s.id), cq.Z(s.full), cq.Z(s.live)))
	}
	return cq.List(it)
}

// planWriterRun drives one writer and returns its event log.
func planWriterRun(rng *rand.Rand, opt mergeplan.Options, nbatches int) (*planWLog, error) {
	log := &planWLog{}
	hooked := opt
	hooked.CalcBudget = func(total, first int64, o *mergeplan.Options) int {
		b := mergeplan.CalcBudget(total, first, o)
		log.add(planWEvent{kind: "budget", bargs: [3]int64{total, first, int64(b)}})
		return b
	}
	hooked.ScoreSegments = func(segs []mergeplan.Segment, o *mergeplan.Options) float64 {
		f := mergeplan.ScoreSegments(segs, o)
		ids := make([]uint64, len(segs))
		for i, s := range segs {
			ids[i] = s.ID()
		}
		k, ok := planKey(f)
		log.add(planWEvent{kind: "score", ids: ids, key: k, nan: !ok})
		return f
	}
	cfg := bluge.InMemoryOnlyConfig()
	ic := cfg.VerifIndexConfig()
	ic.MergePlanOptions = hooked
	ic.AsyncError = func(error) {}
	ic.EventCallback = func(ev index.Event) {
		switch ev.Kind {
		case index.EventKindMergerProgress:
			log.add(planWEvent{kind: "progress"})
		case index.EventKindPersisterProgress, index.EventKindBatchIntroduction:
			log.add(planWEvent{kind: "activity"})
		}
	}
	cfg = cfg.VerifWithIndexConfig(ic)

	var mine *index.Writer
	var mineMu sync.Mutex
	index.VerifTrace = func(ev *index.VerifEvent) {
		mineMu.Lock()
		if mine == nil {
			mine = ev.Writer
		}
		ok := mine == ev.Writer
		mineMu.Unlock()
		if !ok {
			return
		}
		switch ev.Kind {
		case "root":
			log.add(planWEvent{kind: "root", segs: planWSegs(ev.Segs)})
		case "intro-merge":
			e := planWEvent{kind: "merge", newID: ev.MergeID, newCnt: -1}
			for _, o := range ev.Old {
				e.old = append(e.old, o.ID)
				if !o.Nil && !o.Persisted {
					e.oldMem = true
				}
			}
			sort.Slice(e.old, func(i, j int) bool { return e.old[i] < e.old[j] })
			if ev.New != nil {
				e.newCnt = int64(ev.New.Count)
			}
			log.add(e)
		}
	}
	defer func() { index.VerifTrace = nil }()

	wr, err := bluge.OpenWriter(cfg)
	if err != nil {
		return nil, err
	}
	idle := func() {
		deadline := time.Now().Add(30 * time.Second)
		last, since := log.size(), time.Now()
		for time.Now().Before(deadline) {
			time.Sleep(15 * time.Millisecond)
			if n := log.size(); n != last {
				last, since = n, time.Now()
			} else if time.Since(since) > 150*time.Millisecond && !log.planning() {
				return
			}
		}
	}
	nextDoc := 0
	var live []string
	for b := 0; b < nbatches; b++ {
		batch := bluge.NewBatch()
		k := 1 + rng.Intn(6)
		if rng.Intn(8) == 0 {
			k = 8 + rng.Intn(12)
		}
		for i := 0; i < k; i++ {
			id := fmt.Sprintf("d%05d", nextDoc)
			nextDoc++
			live = append(live, id)
			batch.Update(bluge.Identifier(id), bluge.NewDocument(id).AddField(bluge.NewKeywordField("v", fmt.Sprintf("%d", b)).StoreValue()))
		}
		// updates and deletions of earlier documents: deletions inside old segments, sometimes whole segments
		nd := 0
		switch rng.Intn(4) {
		case 0:
			nd = rng.Intn(4)
		case 1:
			nd = rng.Intn(len(live)/3 + 1)
		}
		for i := 0; i < nd && len(live) > k; i++ {
			j := rng.Intn(len(live) - k)
			id := live[j]
			if rng.Intn(3) == 0 {
				batch.Update(bluge.Identifier(id), bluge.NewDocument(id).AddField(bluge.NewKeywordField("v", "u").StoreValue()))
			} else {
				batch.Delete(bluge.Identifier(id))
				live = append(live[:j], live[j+1:]...)
			}
		}
		if rng.Intn(12) == 0 && len(live) > 2*k { // delete a run of old documents: empties a whole early segment
			n := len(live) / 2
			for _, id := range live[:n] {
				batch.Delete(bluge.Identifier(id))
			}
			live = append([]string{}, live[n:]...)
		}
		if err := wr.Batch(batch); err != nil {
			wr.Close()
			return nil, err
		}
		idle()
	}
	idle()
	// a last search keeps the compiler honest about the reader API and checks the index is usable
	if rd, err := wr.Reader(); err == nil {
		_, _ = rd.Search(context.Background(), bluge.NewTopNSearch(1, bluge.NewMatchAllQuery()))
		rd.Close()
	}
	if err := wr.Close(); err != nil {
		return nil, err
	}
	return log, nil
}

func planWriterOpts(rng *rand.Rand) mergeplan.Options {
	o := mergeplan.Options{
		MaxSegmentsPerTier:   1 + rng.Intn(3),
		MaxSegmentSize:       int64(20 + rng.Intn(200)),
		TierGrowth:           []float64{2, 2, 3, 4, 10}[rng.Intn(5)],
		SegmentsPerMergeTask: 2 + rng.Intn(4),
		FloorSegmentSize:     int64(1 + rng.Intn(4)),
		ReclaimDeletesWeight: []float64{0, 1, 2, 2, 3}[rng.Intn(5)],
	}
	if rng.Intn(4) == 0 {
		o.MaxSegmentSize = 5000000
	}
	return o
}

// planWriterCases emits CPlanW and CApply cases from `runs` writer histories.
func planWriterCases(w *cq.Writer, rng *rand.Rand, runs, nbatches int) error {
	for r := 0; r < runs; r++ {
		opt := planWriterOpts(rng)
		log, err := planWriterRun(rng, opt, nbatches)
		if err != nil {
			return fmt.Errorf("writer run: %w", err)
		}
		ev := log.events
		w.Count("writer_events", len(ev))
		var lastRoot []planWSeg
		var roots [][]planWSeg
		haveRoot := false
		for i := 0; i < len(ev); i++ {
			switch ev[i].kind {
			case "root":
				lastRoot, haveRoot = ev[i].segs, true
				roots = append(roots, ev[i].segs)
			case "merge":
				// CApply: root before, merge, next root
				if !haveRoot {
					continue
				}
				var after []planWSeg
				found := false
				for j := i + 1; j < len(ev); j++ {
					if ev[j].kind == "root" {
						after, found = ev[j].segs, true
						break
					}
					if ev[j].kind == "merge" {
						break
					}
				}
				if !found {
					w.Count("writer_merge_without_root_skipped", 1)
					continue
				}
				kind := "apply-planned-merge"
				if ev[i].oldMem {
					kind = "apply-in-memory-merge"
				}
				w.Add(fmt.Sprintf("CApply %s %s %s %s", planWCoq(lastRoot, false), cq.U(ev[i].newID), cq.U64List(ev[i].old), planWCoq(after, false)),
					kind, len(ev[i].old) > 1, map[string]interface{}{"options": fmt.Sprintf("%+v", opt), "old": ev[i].old, "new": ev[i].newID, "new_count": ev[i].newCnt})
			case "budget":
				// CPlanW: a complete plan = budget ... progress
				if !haveRoot {
					continue
				}
				var slog []planLogEntry
				var tasks [][]uint64
				complete, nan := false, false
				j := i + 1
				for ; j < len(ev); j++ {
					if ev[j].kind == "budget" {
						break
					}
					if ev[j].kind == "progress" {
						complete = true
						break
					}
					switch ev[j].kind {
					case "score":
						slog = append(slog, planLogEntry{ids: ev[j].ids, key: ev[j].key})
						nan = nan || ev[j].nan
					case "merge":
						if !ev[j].oldMem {
							tasks = append(tasks, ev[j].old)
						}
					}
				}
				if !complete || nan {
					w.Count("writer_plan_incomplete_or_nan_skipped", 1)
					continue
				}
				// Which snapshot did the planner see?  The merger takes s.currentSnapshot() a moment before plan()
				// calls the CalcBudget hook, and the persister may replace the root in between (a segment turning
				// persisted).  Among the last roots take the latest one whose persisted segments give the
				// (eligiblesLiveSize, minLiveSize) the hook received and contain every scored segment.
				b := ev[i].bargs
				var input []planWSeg
				np := 0
				for back := 0; back < 4 && back < len(roots) && input == nil; back++ {
					cand := roots[len(roots)-1-back]
					ids := map[uint64]bool{}
					var total int64
					minLive := int64(1<<63 - 1)
					n := 0
					for _, sg := range cand {
						if !sg.persisted {
							continue
						}
						n++
						ids[sg.id] = true
						if sg.live < minLive {
							minLive = sg.live
						}
						if sg.live < opt.MaxSegmentSize/2 {
							total += sg.live
						}
					}
					if minLive < opt.FloorSegmentSize {
						minLive = opt.FloorSegmentSize
					}
					ok := n > 1 && total == b[0] && minLive == b[1]
					for _, e := range slog {
						for _, id := range e.ids {
							ok = ok && ids[id]
						}
					}
					if ok {
						input, np = cand, n
						if back > 0 {
							w.Count("writer_plan_on_older_root", 1)
						}
					}
				}
				if input == nil {
					// never seen on the unchanged tree: the planner was given something else than the persisted
					// segments of a recent root; the case is emitted with the latest root and will not check
					w.Count("writer_plan_input_not_identified", 1)
					input = roots[len(roots)-1]
					for _, sg := range input {
						if sg.persisted {
							np++
						}
					}
				}
				ts := make([]string, len(tasks))
				for k, t := range tasks {
					ts[k] = cq.U64List(t)
				}
				w.Add(fmt.Sprintf("CPlanW %s %s %s %s %s", planCoqOpts(&opt), planWCoq(input, true), planLogTerm(slog), planBargs(&b), cq.List(ts)),
					"writer-plan", len(tasks) > 0, map[string]interface{}{"options": fmt.Sprintf("%+v", opt), "persisted_segments": np, "tasks": tasks, "score_calls": len(slog)})
				w.Count("writer_plans", 1)
				w.Count("writer_plan_tasks", len(tasks))
			}
		}
	}
	return nil
}

// planHistoryIndependence: "the tasks are the same for the same input" also when other inputs were planned in
// between with the SAME *Options value (or with nil options, i.e. the package default): plan(B), plan(A),
// plan(B) and plan(B) with a fresh copy of the options must agree on B.
var planPristineDefault = mergeplan.DefaultMergePlanOptions // captured before any Plan call of this process

// planDirect calls mergeplan.Plan with exactly the *Options value given (planCall works on a copy).
func planDirect(segs []*planSeg, o *mergeplan.Options) *mergeplan.MergePlan {
	var p *mergeplan.MergePlan
	fin, pan := cq.Guard(planGuard, func() { p, _ = mergeplan.Plan(planIface(segs), o) })
	if !fin || pan != nil {
		return nil
	}
	return p
}

func planHistoryIndependence(w *cq.Writer, rng *rand.Rand, n int) {
	mk := func(k int, lo, hi int64, idBase uint64) []*planSeg {
		segs := make([]*planSeg, k)
		for i := range segs {
			live := lo + rng.Int63n(hi-lo+1)
			full := live
			if rng.Intn(3) == 0 {
				full += rng.Int63n(live/4 + 2)
			}
			segs[i] = &planSeg{id: idBase + uint64(i), full: full, live: live}
		}
		return segs
	}
	for i := 0; i < n; i++ {
		var shared *mergeplan.Options
		var fresh *mergeplan.Options
		if i%3 != 0 {
			o := planGenOpts(rng, 0)
			if !planSane(&o) || o.TierGrowth < 2 {
				continue
			}
			c := o
			shared, fresh = &o, &c
		}
		eff := mergeplan.DefaultMergePlanOptions
		if shared != nil {
			eff = *shared
		}
		half := eff.MaxSegmentSize / 2
		if half < 8 {
			continue
		}
		// B: many small segments (at or below the floor); A: fewer, larger ones (above the floor)
		bl := eff.FloorSegmentSize
		if bl < 1 {
			bl = 1
		}
		if bl >= half {
			bl = half - 1
		}
		B := mk(20+rng.Intn(40), 1, bl, 1)
		alo := eff.FloorSegmentSize + 1 + rng.Int63n(half/4+1)
		if alo >= half {
			alo = half - 1
		}
		A := mk(5+rng.Intn(20), alo, half-1, 1000)
		if shared == nil {
			c := planPristineDefault
			fresh = &c
		}
		wantFresh := planDirect(B, fresh)
		r1 := planDirect(B, shared)
		planDirect(A, shared)
		r2 := planDirect(B, shared)
		w.OracleEval(1)
		input := map[string]interface{}{"options": fmt.Sprintf("%+v", eff), "nil_options": shared == nil, "B": planMetaSegs(B), "A": planMetaSegs(A)}
		if !planSameTasks(r1, r2) || !planSameTasks(r2, wantFresh) {
			w.OracleFail("plan-depends-on-history", "Plan(B) differs after Plan(A) was called with the same *Options (or nil options)", input)
		}
		w.Count("history_independence_triples", 1)
	}
}
