#!/bin/sh
# tools/mutcheck.sh <patch.diff> <property-id>...  [env TIER=quick|thorough]
# Runs the given checks against a scratch worktree of /repo with the patch applied, using a
# private copy of /verif (so that /repo, /verif/coq/Gen and /verif/work are not disturbed).
# Prints each check's output; exit 0 if every listed check reported a VIOLATION (mutant caught).
set -u
patch=$(readlink -f "$1"); shift
d=$(mktemp -d /tmp/mut.XXXXXX)
wt=$d/repo; vc=$d/verif
cleanup() { git -C /repo worktree remove --force "$wt" >/dev/null 2>&1; rm -rf "$d"; }
trap cleanup EXIT INT TERM
git -C /repo worktree add -q --detach "$wt" HEAD || exit 2
if ! git -C "$wt" apply "$patch"; then echo "patch does not apply"; exit 2; fi
rsync -a --exclude work --exclude replays --exclude .git /verif/ "$vc"/
caught=0; total=0
for id in "$@"; do
  total=$((total+1))
  out=$(cd "$vc" && VERIF_REPO="$wt" ./check "$id" "${TIER:-quick}" 2>&1); rc=$?
  echo "$out" | grep -v '^KNOWN-FINDING' | tail -5
  if echo "$out" | grep -q "^VIOLATION property=$id"; then
    caught=$((caught+1)); echo "== $id: CAUGHT (exit $rc)"
    f=$(echo "$out" | sed -n 's/^VIOLATION property=[^ ]* replay=\([^ ]*\).*/\1/p' | head -1)
    [ -f "$f" ] && head -c 4000 "$f" && echo
  else
    echo "== $id: MISSED (exit $rc)"
  fi
done
[ "$caught" -eq "$total" ]
