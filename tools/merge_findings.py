#!/usr/bin/env python3
"""Consolidates findings/*.json into KNOWN_FINDINGS.json (the single committed known-findings file).
Entries are keyed by (property, key) — fixed entries also by their commit; findings/*.json stay as the per-property sources."""
import glob, json, os
base = os.path.dirname(os.path.dirname(os.path.abspath(__file__)))
kf = os.path.join(base, 'KNOWN_FINDINGS.json')
data = json.load(open(kf))
K = lambda f: (f['property'], f['key'], f.get('commit', '') if f.get('status') == 'fixed' else '')
items = {K(f): f for f in data.get('findings', [])}
for p in sorted(glob.glob(os.path.join(base, 'findings', '*.json'))):
    for f in json.load(open(p)):
        items[K(f)] = f
out = sorted(items.values(), key=lambda f: (f['property'], f.get('status', ''), f['key']))
data['findings'] = out
data['summary'] = {'known': sum(1 for f in out if f.get('status') == 'known'), 'fixed': sum(1 for f in out if f.get('status') == 'fixed')}
data['fixed_lines'] = ['fixed: property=%s %s %s' % (f['property'], f.get('commit', '?'), (f.get('what') or '')[:160].replace('\n', ' ')) for f in out if f.get('status') == 'fixed']
json.dump(data, open(kf, 'w'), indent=1)
print(data['summary'])
