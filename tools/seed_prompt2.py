#!/usr/bin/env python3
"""second-round seeding prompt: like seed_prompt.py but lists the changes already used."""
import json, sys, glob, os, subprocess
pid, wt = sys.argv[1], sys.argv[2]
K1, K2 = (sys.argv[3], sys.argv[4]) if len(sys.argv) > 4 else ("3", "4")
base = subprocess.run(['python3', '/verif/tools/seed_prompt.py', pid, wt, '2'], stdout=subprocess.PIPE, text=True).stdout
used = []
for p in sorted(glob.glob('/verif/seeded/%s-*/meta.json' % pid)):
    m = json.load(open(p)); used.append("- %s (%s)" % (m.get('title'), ', '.join(m.get('files', []))))
extra = ("\n\nIMPORTANT — this is a second round. The following changes were already produced for this property by an earlier round; "
         "produce mutants that are DIFFERENT in kind and code site from all of them (and from obvious variations of them):\n" + "\n".join(used) +
         "\nWrite your outputs to the directories " + wt + "/../out-" + pid + "-" + K1 + "/ and " + wt + "/../out-" + pid + "-" + K2 + "/ (numbering continues from the first round). "
         "Every demo_cmd in meta.json MUST start with the `cp ../out-<id>-<k>/demo_test.go <destination> && ` step so that it can be run from a clean worktree as is.")
print(base.replace("out-%s-k/" % pid, "out-%s-k/ (k = %s, %s in this round)" % (pid, K1, K2)) + extra)
