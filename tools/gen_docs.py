#!/usr/bin/env python3
"""Regenerates docs/findings.md (from KNOWN_FINDINGS.json) and docs/trusted-base.md (from evidence/*.json)."""
import glob, json, os
base = os.path.dirname(os.path.dirname(os.path.abspath(__file__)))
kf = json.load(open(os.path.join(base, 'KNOWN_FINDINGS.json')))
out = ["# Findings (generated from KNOWN_FINDINGS.json)", "",
       "`fixed` = genuine defect repaired by one `fix:` commit in /repo (the check reports it again if it returns);",
       "`known` = genuine defect recorded, not repaired: the check prints `KNOWN-FINDING:` for it and exits 0.", "",
       "| property | status | key | commit | what fails |", "|---|---|---|---|---|"]
for f in kf['findings']:
    out.append("| %s | %s | `%s` | %s | %s |" % (f['property'], f.get('status'), f['key'], (f.get('commit') or '')[:8],
                                                (f.get('what') or '').replace('\n', ' ').replace('|', '\\|')[:420]))
open(os.path.join(base, 'docs', 'findings.md'), 'w').write("\n".join(out) + "\n")
tb = ["# Trusted base per property (generated from evidence/*.json of the last runs)", "",
      "Axioms are those printed by `Print Assumptions` under the theorems of `coq/Props/<id>.v` (none declared by this development;",
      "the listed ones are declared by Coq's standard library / Flocq / Interval).", "",
      "| property | obligations | axioms under its theorems | further trusted items |", "|---|---|---|---|"]
for p in sorted(glob.glob(os.path.join(base, 'evidence', 'C*.json'))):
    e = json.load(open(p)); c = e['coverage']
    extra = [t for t in c.get('trusted_base', []) if not t.startswith(('Coq 8.16.1', 'tools/goextract', 'Go harness', 'printing of', 'axioms reported'))]
    tb.append("| %s | %s/%s | %s | %s |" % (e['property_id'], c.get('discharged'), c.get('obligations'),
                                          ', '.join(c.get('axioms') or []) or 'none', ' ; '.join(x.replace('|', '/')[:220] for x in extra)[:900]))
open(os.path.join(base, 'docs', 'trusted-base.md'), 'w').write("\n".join(tb) + "\n")
print("ok")
