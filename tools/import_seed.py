#!/usr/bin/env python3
"""tools/import_seed.py <mutant-dir> [check-result ...]  — copies a confirmed seeded mutant into
/verif/seeded/<name>/ (patch.diff, the demonstration, meta.json extended with the confirmation and
the results of our checks: 'Cxx=CAUGHT:<reason>' / 'Cxx=MISSED')."""
import json, os, shutil, sys
src = os.path.abspath(sys.argv[1])
name = os.path.basename(src).replace("out-", "")
dst = os.path.join("/verif/seeded", name)
os.makedirs(dst, exist_ok=True)
for f in os.listdir(src):
    if f in ("patch.diff", "meta.json") or f.startswith("demo"):
        p = os.path.join(src, f)
        if os.path.isdir(p):
            shutil.copytree(p, os.path.join(dst, f), dirs_exist_ok=True)
        else:
            shutil.copy(p, os.path.join(dst, f))
meta = json.load(open(os.path.join(dst, "meta.json")))
cp = os.path.join(src, "confirm.json")
if os.path.exists(cp):
    c = json.load(open(cp))
    meta["confirmation"] = {k: c.get(k) for k in ("head", "demo_passes_at_head", "builds_with_patch", "demo_fails_with_patch",
                                                   "suite_passes_with_patch", "confirmed", "suite_failures")}
    meta["what_we_ran"] = ("tools/confirm_seed.sh: scratch worktree of /repo HEAD; demo_cmd at HEAD (pass), git apply patch.diff, go build ./..., "
                           "demo_cmd (fail), go test -vet=off -count=1 ./... without the demo (pass; the sleep-timed index/lock test is retried alone); "
                           "tools/mutcheck.sh patch.diff <checks> (scratch worktree + private copy of /verif)")
res = meta.get("check_results", {})
for a in sys.argv[2:]:
    k, v = a.split("=", 1)
    res[k] = v
meta["check_results"] = res
json.dump(meta, open(os.path.join(dst, "meta.json"), "w"), indent=1)
print(dst, res)
