#!/usr/bin/env python3
"""prints the prompt for a seeding sub-agent: python3 tools/seed_prompt.py C01 <worktree> [n]"""
import json, sys
pid, wt = sys.argv[1], sys.argv[2]
n = sys.argv[3] if len(sys.argv) > 3 else "2"
prop = [json.loads(l) for l in open('/verif/properties.jsonl') if json.loads(l)['id'] == pid][0]
print(f"""You are testing how well a verification effort can detect realistic regressions in the Go full-text indexing library blugelabs/bluge. You get ONE semantic property of the library and your own scratch git worktree of it. Work ONLY inside the worktree {wt} (it is a `git worktree` of the repository; never touch /repo or /verif, never read anything under /verif).

THE PROPERTY (id {pid}):
{json.dumps(prop, indent=1)}

YOUR TASK: produce {n} DIFFERENT code changes (mutants) to the library source in the worktree, each of which
 (a) BREAKS this property for some input / schedule / crash point / history,
 (b) still COMPILES (`go build ./...` and `go vet ./... ` need not be clean, but the build must succeed),
 (c) still PASSES the existing test suite unedited: run `cd {wt} && GOFLAGS=-mod=mod GOPROXY=off GOSUMDB=off go test -vet=off -count=1 ./... 2>&1 | tail -30` — every package must be `ok` (run the full suite at least once per mutant),
 (d) needs something SPECIFIC to manifest — a particular interleaving, a crash or fault at a particular point, a multi-step sequence of operations, an unusual input, or two cooperating sites that each look fine alone — NOT something ordinary use or the first simple test would expose at once. Think of a plausible bug a maintainer could introduce in a refactoring, not a deliberately obvious sabotage,
 (e) comes with a DEMONSTRATION: a Go test file (package-internal `_test.go` in the worktree, or a small `main` program using the public API) that FAILS with the change applied and PASSES without it. Keep the demonstration deterministic if at all possible (use the library's public seams: custom index.Directory via index.Config.DirectoryFunc, EventCallback, GoFunc, deletion policy, merge plan options, segment plugins; loops with retries are acceptable for schedule-dependent bugs if they fail reliably within a minute).
NEVER use `git stash` (the stash is shared by all worktrees of the repository and other people use them concurrently): save with `git diff > file`, undo with `git checkout -- .`, restore with `git apply file`. Do not modify files whose names start with `verif_` (test instrumentation guarded by the build tag `verif`) and do not use that build tag. Only edit non-test library files for the mutant itself.

For each mutant k = 1..{n} write into the directory {wt}/../out-{pid}-k/ (create it):
  - patch.diff  : `git -C {wt} diff -- . ':!*_test.go'` of the library change ONLY (no test files), relative to the worktree HEAD,
  - demo_test.go (or demo/main.go) : the demonstration, with a header comment saying where to put it and how to run it,
  - meta.json : {{"property": "{pid}", "title": "...", "what_breaks": "...", "needs": "what specific condition makes it manifest", "files": [...], "demo_cmd": "exact command to run the demo from the worktree root", "suite_passes": true}}.
After saving mutant k, reset the worktree (`git -C {wt} checkout -- . && git -C {wt} clean -fdq`) before starting the next one. At the end the worktree must be clean.
Verify each patch yourself from a clean worktree: apply patch.diff with `git apply`, copy the demo in, run demo_cmd (must FAIL), run the full suite without the demo's own test name (must pass), then undo everything and run the demo alone again (must PASS).
Final message: for each mutant one paragraph (what, why it breaks the property, what it needs to manifest, demo result with/without), plus the paths of the output directories.""")
