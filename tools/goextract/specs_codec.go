package main

import (
	"fmt"
	"go/ast"
	"go/token"
	"strings"
)

// snapshot codec (C12): constants of index/snapshot.go and three structural facts about the
// decoder that the model's behaviour flags are read from:
//
//	codec_unguarded_len_makes  number of make(...) calls in readSegmentSnapshot /
//	                           readVarLenString whose length mentions a variable assigned
//	                           from binary.Uvarint (a length taken from the file and used for
//	                           an allocation before any validation)            -- D3
//	codec_strict_peeks         number of Peek calls of the decoder whose error check does
//	                           not exempt io.EOF (a short last record is then an error)
//	codec_single_reads         number of direct (*bufio.Reader).Read calls in the decoder
//	                           (single-shot reads that may return short without error)
//	codec_peek_len             the argument of every Peek (all must be binary.MaxVarintLen64)
func init() {
	specs = append(specs,
		spec{area: "Codec", coq: "snapshot_format_version", file: "index/snapshot.go", kind: "const", a: "blugeSnapshotFormatVersion"},
		spec{area: "Codec", coq: "snapshot_format_version1", file: "index/snapshot.go", kind: "const", a: "blugeSnapshotFormatVersion1"},
		spec{area: "Codec", coq: "crc_width", file: "index/snapshot.go", kind: "const", a: "crcWidth"},
	)
	sections = append(sections, codecSection)
}

var codecDecoderFuncs = []string{"ReadFrom", "readFromVersion1", "readSegmentSnapshot", "readVarLenString"}

func mentions(e ast.Node, names map[string]bool) bool {
	found := false
	ast.Inspect(e, func(n ast.Node) bool {
		if id, ok := n.(*ast.Ident); ok && names[id.Name] {
			found = true
		}
		return !found
	})
	return found
}

func exprString(e ast.Expr) string {
	switch x := e.(type) {
	case *ast.Ident:
		return x.Name
	case *ast.SelectorExpr:
		return exprString(x.X) + "." + x.Sel.Name
	case *ast.BinaryExpr:
		return exprString(x.X) + " " + x.Op.String() + " " + exprString(x.Y)
	case *ast.BasicLit:
		return x.Value
	case *ast.ParenExpr:
		return "(" + exprString(x.X) + ")"
	case *ast.UnaryExpr:
		return x.Op.String() + exprString(x.X)
	case *ast.CallExpr:
		args := []string{}
		for _, a := range x.Args {
			args = append(args, exprString(a))
		}
		return exprString(x.Fun) + "(" + strings.Join(args, ", ") + ")"
	}
	return fmt.Sprintf("<%T>", e)
}

// stmtLists returns every statement list (block bodies, case bodies) inside n.
func stmtLists(n ast.Node) [][]ast.Stmt {
	var out [][]ast.Stmt
	ast.Inspect(n, func(m ast.Node) bool {
		switch b := m.(type) {
		case *ast.BlockStmt:
			out = append(out, b.List)
		case *ast.CaseClause:
			out = append(out, b.Body)
		case *ast.CommClause:
			out = append(out, b.Body)
		}
		return true
	})
	return out
}

func codecSection(root string) (string, string, []string) {
	var errs []string
	var sb strings.Builder
	fi, err := load(root, "index/snapshot.go")
	if err != nil {
		return "Codec", "", []string{err.Error()}
	}
	unguarded, strictPeeks, singleReads, peeks := 0, 0, 0, 0
	peekArgsOK := true
	for _, fn := range codecDecoderFuncs {
		fd := findFunc(fi, fn)
		if fd == nil {
			errs = append(errs, "decoder function "+fn+" not found in index/snapshot.go")
			continue
		}
		// variables assigned from binary.Uvarint
		lenVars := map[string]bool{}
		ast.Inspect(fd, func(n ast.Node) bool {
			if as, ok := n.(*ast.AssignStmt); ok && len(as.Rhs) == 1 {
				if c, ok := as.Rhs[0].(*ast.CallExpr); ok && calleeName(c) == "binary.Uvarint" && len(as.Lhs) >= 1 {
					if id, ok := as.Lhs[0].(*ast.Ident); ok && id.Name != "_" {
						lenVars[id.Name] = true
					}
				}
			}
			return true
		})
		ast.Inspect(fd, func(n ast.Node) bool {
			c, ok := n.(*ast.CallExpr)
			if !ok {
				return true
			}
			if id, ok := c.Fun.(*ast.Ident); ok && id.Name == "make" && len(c.Args) >= 2 {
				if mentions(c.Args[1], lenVars) {
					unguarded++
				}
			}
			if sel, ok := c.Fun.(*ast.SelectorExpr); ok {
				if id, ok := sel.X.(*ast.Ident); ok && (id.Name == "br" || id.Name == "r") {
					if sel.Sel.Name == "Read" {
						singleReads++
					}
				}
			}
			return true
		})
		// Peek sites: `x, err := br.Peek(arg)` followed by `if err != nil [&& err != io.EOF] {`
		for _, list := range stmtLists(fd.Body) {
			for k, st := range list {
				as, ok := st.(*ast.AssignStmt)
				if !ok || len(as.Rhs) != 1 {
					continue
				}
				c, ok := as.Rhs[0].(*ast.CallExpr)
				if !ok {
					continue
				}
				sel, ok := c.Fun.(*ast.SelectorExpr)
				if !ok || sel.Sel.Name != "Peek" {
					continue
				}
				peeks++
				if len(c.Args) != 1 || exprString(c.Args[0]) != "binary.MaxVarintLen64" {
					peekArgsOK = false
				}
				tolerant := false
				if k+1 < len(list) {
					if is, ok := list[k+1].(*ast.IfStmt); ok {
						cond := exprString(is.Cond)
						if cond == "err != nil && err != io.EOF" {
							tolerant = true
						} else if cond != "err != nil" {
							errs = append(errs, fn+": unrecognised error check after Peek: "+cond)
						}
					} else {
						errs = append(errs, fn+": Peek not followed by an error check")
					}
				}
				if !tolerant {
					strictPeeks++
				}
			}
		}
	}
	if !peekArgsOK {
		errs = append(errs, "a Peek of the decoder does not ask for binary.MaxVarintLen64 bytes")
	}
	// chunk size of readBytes (absent on a tree without the bounded reader: 0)
	chunk := "0"
	if e, ok := fi.consts["maxUnverifiedAlloc"]; ok {
		v, err := eval(fi, e)
		if err != nil || !v.IsInt() {
			errs = append(errs, "maxUnverifiedAlloc does not evaluate")
		} else {
			chunk = v.Num().String()
		}
	}
	// loadSnapshot: the reader is limited to Len()-crcWidth and the trailer is compared
	fw, err := load(root, "index/writer.go")
	if err != nil {
		return "Codec", "", append(errs, err.Error())
	}
	crcCompared, limited := 0, 0
	if fd := findFunc(fw, "loadSnapshot"); fd != nil {
		ast.Inspect(fd, func(n ast.Node) bool {
			switch x := n.(type) {
			case *ast.IfStmt:
				if exprString(x.Cond) == "!bytes.Equal(computedCRCBytes, fileCRCBytes)" {
					// the body must end by returning a non-nil error
					if len(x.Body.List) > 0 {
						if rs, ok := x.Body.List[len(x.Body.List)-1].(*ast.ReturnStmt); ok && len(rs.Results) == 2 {
							if id, ok := rs.Results[1].(*ast.Ident); !ok || id.Name != "nil" {
								crcCompared++
							}
						}
					}
				}
			case *ast.CallExpr:
				if calleeName(x) == "io.LimitReader" && len(x.Args) == 2 &&
					exprString(x.Args[1]) == "int64(data.Len() - crcWidth)" {
					limited++
				}
			}
			return true
		})
	} else {
		errs = append(errs, "loadSnapshot not found in index/writer.go")
	}
	_ = token.NoPos
	fmt.Fprintf(&sb, "Definition codec_unguarded_len_makes : Z := %d. (* index/snapshot.go: make(..., <length read from the file>) in the decoder *)\n", unguarded)
	fmt.Fprintf(&sb, "Definition codec_strict_peeks : Z := %d. (* index/snapshot.go: Peek sites treating io.EOF as an error, of %d *)\n", strictPeeks, peeks)
	fmt.Fprintf(&sb, "Definition codec_peek_sites : Z := %d. (* index/snapshot.go: Peek(binary.MaxVarintLen64) sites of the decoder *)\n", peeks)
	fmt.Fprintf(&sb, "Definition codec_single_reads : Z := %d. (* index/snapshot.go: single-shot bufio Read calls in the decoder *)\n", singleReads)
	fmt.Fprintf(&sb, "Definition codec_read_chunk : Z := %s. (* index/snapshot.go: const maxUnverifiedAlloc (0 = absent) *)\n", chunk)
	fmt.Fprintf(&sb, "Definition codec_crc_compared : Z := %d. (* index/writer.go loadSnapshot: if !bytes.Equal(computed, file) { ... return nil, err } *)\n", crcCompared)
	fmt.Fprintf(&sb, "Definition codec_reader_limited : Z := %d. (* index/writer.go loadSnapshot: io.LimitReader(data.Reader(), int64(data.Len()-crcWidth)) *)\n", limited)
	return "Codec", sb.String(), errs
}
