package main

// numeric / prefix coding (C10)
func init() {
	specs = append(specs,
		spec{area: "Numeric", coq: "shift_start_int64", file: "numeric/prefix_coded.go", kind: "const", a: "ShiftStartInt64"},
		spec{area: "Numeric", coq: "numeric_precision_step", file: "field.go", kind: "const", a: "defaultNumericPrecisionStep"},
		spec{area: "Numeric", coq: "datetime_precision_step", file: "field.go", kind: "const", a: "defaultDateTimePrecisionStep"},
		spec{area: "Numeric", coq: "geo_precision_step", file: "field.go", kind: "var", a: "geoPrecisionStep"},
		spec{area: "Numeric", coq: "query_precision_step", file: "search/searcher/search_numeric_range.go", kind: "callarg", a: "NewNumericRangeSearcher", b: "splitInt64Range", n: 2},
	)
}
