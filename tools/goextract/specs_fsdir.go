package main

import (
	"fmt"
	"go/ast"
	"strings"
)

// file-system directory (C13): the open flags of Persist / Load and the *sequence of steps*
// of FileSystemDirectory.Persist, read from the AST:
//
//	persist_steps   : list (Z * Z)   (operation, error handling) in program order
//	     operation: 1 openExclusive  2 File().Truncate  3 WriteTo  4 File().Sync  5 Close
//	     handling : 0 `if err != nil { return err }`          (no cleanup)
//	                1 `if err != nil { cleanup(); return err }`
//	                2 error not checked
//	persist_cleanup : list Z         operations of the cleanup closure: 5 Close  6 os.Remove(path)
//	persist_truncate_size : Z        argument of Truncate (-1 when there is no Truncate step)
//
// Index/FsDir.v interprets these lists; a statement of Persist that is none of the above
// makes T-gen fail (the model would no longer describe the function).
func init() {
	specs = append(specs,
		spec{area: "FsDir", coq: "persist_open_flags", file: "index/directory_fs.go", kind: "callarg", a: "Persist", b: "d.openExclusive", n: 1},
		spec{area: "FsDir", coq: "load_open_flags", file: "index/directory_fs.go", kind: "callarg", a: "Load", b: "d.openShared", n: 1},
		spec{area: "FsDir", coq: "remove_open_flags", file: "index/directory_fs_nix.go", kind: "callarg", a: "remove", b: "d.openExclusive", n: 1},
	)
	sections = append(sections, fsdirSection)
}

func lastSelector(c *ast.CallExpr) string {
	if sel, ok := c.Fun.(*ast.SelectorExpr); ok {
		return sel.Sel.Name
	}
	if id, ok := c.Fun.(*ast.Ident); ok {
		return id.Name
	}
	return ""
}

func fsdirSection(root string) (string, string, []string) {
	var errs []string
	var sb strings.Builder
	fi, err := load(root, "index/directory_fs.go")
	if err != nil {
		return "FsDir", "", []string{err.Error()}
	}
	fd := findFunc(fi, "Persist")
	if fd == nil {
		return "FsDir", "", []string{"Persist not found in index/directory_fs.go"}
	}
	opOf := func(c *ast.CallExpr) int {
		switch lastSelector(c) {
		case "openExclusive":
			return 1
		case "Truncate":
			return 2
		case "WriteTo":
			return 3
		case "Sync":
			return 4
		case "Close":
			return 5
		case "Remove":
			return 6
		}
		return 0
	}
	var steps []string
	var cleanup []string
	truncSize := "(-1)"
	list := fd.Body.List
	sawReturnNil := false
	for k := 0; k < len(list); k++ {
		switch st := list[k].(type) {
		case *ast.AssignStmt:
			if len(st.Rhs) != 1 {
				errs = append(errs, "Persist: unrecognised assignment")
				continue
			}
			switch rhs := st.Rhs[0].(type) {
			case *ast.FuncLit: // cleanup := func() { ... }
				if id, ok := st.Lhs[0].(*ast.Ident); !ok || id.Name != "cleanup" {
					errs = append(errs, "Persist: unexpected closure")
				}
				for _, cs := range rhs.Body.List {
					as, ok := cs.(*ast.AssignStmt)
					if !ok || len(as.Rhs) != 1 {
						errs = append(errs, "Persist.cleanup: unrecognised statement")
						continue
					}
					c, ok := as.Rhs[0].(*ast.CallExpr)
					if !ok || (opOf(c) != 5 && opOf(c) != 6) {
						errs = append(errs, "Persist.cleanup: unrecognised call "+exprString(as.Rhs[0]))
						continue
					}
					cleanup = append(cleanup, fmt.Sprintf("%d", opOf(c)))
				}
			case *ast.CallExpr:
				op := opOf(rhs)
				if lastSelector(rhs) == "Join" { // path := filepath.Join(...)
					continue
				}
				if op == 0 || op == 6 {
					errs = append(errs, "Persist: unrecognised call "+exprString(rhs))
					continue
				}
				if op == 2 {
					if len(rhs.Args) == 1 {
						if v, err := eval(fi, rhs.Args[0]); err == nil && v.IsInt() {
							truncSize = coqZ(v)
						} else {
							errs = append(errs, "Persist: Truncate argument does not evaluate")
						}
					}
				}
				handling := 2
				if k+1 < len(list) {
					if is, ok := list[k+1].(*ast.IfStmt); ok && exprString(is.Cond) == "err != nil" {
						body := is.Body.List
						if len(body) == 1 {
							if _, ok := body[0].(*ast.ReturnStmt); ok {
								handling = 0
							}
						} else if len(body) == 2 {
							es, ok1 := body[0].(*ast.ExprStmt)
							_, ok2 := body[1].(*ast.ReturnStmt)
							if ok1 && ok2 {
								if c, ok := es.X.(*ast.CallExpr); ok && lastSelector(c) == "cleanup" {
									handling = 1
								}
							}
						}
						if handling == 2 {
							errs = append(errs, "Persist: unrecognised error handling after "+exprString(rhs))
						}
						// the returned value must be err
						if rs, ok := body[len(body)-1].(*ast.ReturnStmt); ok {
							if len(rs.Results) != 1 || exprString(rs.Results[0]) != "err" {
								errs = append(errs, "Persist: error path does not return err after "+exprString(rhs))
							}
						}
						k++
					}
				}
				steps = append(steps, fmt.Sprintf("(%d, %d)", op, handling))
			default:
				errs = append(errs, "Persist: unrecognised assignment")
			}
		case *ast.ReturnStmt:
			if len(st.Results) == 1 && exprString(st.Results[0]) == "nil" && k == len(list)-1 {
				sawReturnNil = true
			} else {
				errs = append(errs, "Persist: unexpected return")
			}
		default:
			errs = append(errs, fmt.Sprintf("Persist: unrecognised statement %T", st))
		}
	}
	if !sawReturnNil {
		errs = append(errs, "Persist does not end with `return nil`")
	}
	fmt.Fprintf(&sb, "Definition persist_steps : list (Z * Z) := [%s]. (* index/directory_fs.go Persist: (operation, error handling) *)\n", strings.Join(steps, "; "))
	fmt.Fprintf(&sb, "Definition persist_cleanup : list Z := [%s]. (* index/directory_fs.go Persist: cleanup closure *)\n", strings.Join(cleanup, "; "))
	fmt.Fprintf(&sb, "Definition persist_truncate_size : Z := %s. (* index/directory_fs.go Persist: argument of Truncate *)\n", truncSize)
	sb.WriteString("Definition o_rdonly : Z := 0. Definition o_wronly : Z := 1. Definition o_rdwr : Z := 2. (* os.O_* on linux *)\n")
	sb.WriteString("Definition o_creat : Z := 64. Definition o_excl : Z := 128. Definition o_trunc : Z := 512. Definition o_append : Z := 1024.\n")
	return "FsDir", sb.String(), errs
}
