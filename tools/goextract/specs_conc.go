package main

// Conc (C15): tables read from the Go AST of index/*.go (non-test, non-verif files):
//
//	accesses     every read/write of a field of the tabulated structs, with the locks
//	             lexically held, sync/atomic use, freshness of the base variable
//	calls        package-local static call edges (role propagation in Conc/Roles.v)
//	spawns       go statements
//	select_sites select statements / bare channel operations / close() / WaitGroup
//	             operations of the writer loops
//	loop_exits   return statements and asyncTasks.Done placement of the three loops
//
// The lexical lock analysis is deliberately conservative: a lock is recorded as held at
// a program point only when it is held on every path reaching that point inside the
// function body (branches are intersected, closures start with no lock).
import (
	"fmt"
	"go/ast"
	"go/parser"
	"go/token"
	"go/types"
	"os"
	"path/filepath"
	"sort"
	"strings"
)

var concTabulated = map[string]bool{
	"Writer": true, "Snapshot": true, "closeOnLastRefCounter": true,
	"KeepNLatestDeletionPolicy": true, "Stats": true,
}

var concSiteFuncs = map[string]bool{
	"Writer.introducerLoop": true, "Writer.persisterLoop": true,
	"Writer.pausePersisterForMergerCatchUp": true, "Writer.prepareIntroducePersist": true,
	"Writer.mergeSegmentBases": true, "Writer.mergerLoop": true, "Writer.executeMergeTask": true,
	"Writer.planMergeAtSnapshot": true, "watcherChan.NotifyUsAfter": true, "Writer.close": true,
	"Writer.prepareSegment": true, "OpenWriter": true,
	// the introduce* functions answer the rendezvous partners (applied / notifyCh)
	"Writer.introduceSegment": true, "Writer.introducePersist": true, "Writer.introduceMerge": true,
	"epochWatchers.NotifySatisfiedWatchers": true, "Writer.persistSnapshotDirect": true,
	"Writer.persistSnapshot": true, "Writer.persistSnapshotMaybeMerge": true, "Writer.merge": true,
}

var concLoopFuncs = []string{"Writer.introducerLoop", "Writer.persisterLoop", "Writer.mergerLoop"}

// ---- a very small type language (package-local names only)

type cty struct {
	kind string // named | ptr | slice | map | chan | unknown
	name string
	elem *cty
}

var ctyUnknown = &cty{kind: "unknown"}

type cpkg struct {
	files   map[string]*ast.File
	structs map[string]*ast.StructType
	ifaces  map[string]*ast.InterfaceType
	named   map[string]ast.Expr // other named types -> underlying type expression
	funcs   map[string]*ast.FuncDecl
	methods map[string][]string // method name -> receiver type names
	imports map[string]bool     // imported package names (per package, union)
}

func (p *cpkg) fromExpr(e ast.Expr) *cty {
	switch x := e.(type) {
	case nil:
		return ctyUnknown
	case *ast.Ident:
		return &cty{kind: "named", name: x.Name}
	case *ast.StarExpr:
		return &cty{kind: "ptr", elem: p.fromExpr(x.X)}
	case *ast.ArrayType:
		return &cty{kind: "slice", elem: p.fromExpr(x.Elt)}
	case *ast.Ellipsis:
		return &cty{kind: "slice", elem: p.fromExpr(x.Elt)}
	case *ast.MapType:
		return &cty{kind: "map", elem: p.fromExpr(x.Value)}
	case *ast.ChanType:
		return &cty{kind: "chan", elem: p.fromExpr(x.Value)}
	case *ast.SelectorExpr:
		if id, ok := x.X.(*ast.Ident); ok {
			return &cty{kind: "named", name: id.Name + "." + x.Sel.Name}
		}
	case *ast.ParenExpr:
		return p.fromExpr(x.X)
	}
	return ctyUnknown
}

// under resolves package-local named non-struct types to their underlying type.
func (p *cpkg) under(t *cty) *cty {
	for i := 0; i < 8 && t != nil && t.kind == "named"; i++ {
		u, ok := p.named[t.name]
		if !ok {
			return t
		}
		t = p.fromExpr(u)
	}
	if t == nil {
		return ctyUnknown
	}
	return t
}

func (p *cpkg) deref(t *cty) *cty {
	if t != nil && t.kind == "ptr" {
		return t.elem
	}
	if t == nil {
		return ctyUnknown
	}
	return t
}

func recvTypeName(fd *ast.FuncDecl) string {
	if fd.Recv == nil || len(fd.Recv.List) == 0 {
		return ""
	}
	t := fd.Recv.List[0].Type
	if s, ok := t.(*ast.StarExpr); ok {
		t = s.X
	}
	if id, ok := t.(*ast.Ident); ok {
		return id.Name
	}
	return ""
}

func funcDisplayName(fd *ast.FuncDecl) string {
	if r := recvTypeName(fd); r != "" {
		return r + "." + fd.Name.Name
	}
	return fd.Name.Name
}

func loadConcPkg(root string) (*cpkg, error) {
	dir := filepath.Join(root, "index")
	ents, err := os.ReadDir(dir)
	if err != nil {
		return nil, err
	}
	p := &cpkg{files: map[string]*ast.File{}, structs: map[string]*ast.StructType{}, ifaces: map[string]*ast.InterfaceType{},
		named: map[string]ast.Expr{}, funcs: map[string]*ast.FuncDecl{}, methods: map[string][]string{}, imports: map[string]bool{}}
	for _, e := range ents {
		n := e.Name()
		if e.IsDir() || !strings.HasSuffix(n, ".go") || strings.HasSuffix(n, "_test.go") || strings.HasPrefix(n, "verif_") ||
			strings.HasSuffix(n, "_windows.go") {
			continue
		}
		f, err := parser.ParseFile(fset, filepath.Join(dir, n), nil, 0)
		if err != nil {
			return nil, err
		}
		p.files["index/"+n] = f
		for _, im := range f.Imports {
			path := strings.Trim(im.Path.Value, "\"")
			name := path[strings.LastIndex(path, "/")+1:]
			if im.Name != nil {
				name = im.Name.Name
			}
			p.imports[name] = true
		}
		for _, d := range f.Decls {
			switch x := d.(type) {
			case *ast.GenDecl:
				for _, s := range x.Specs {
					if ts, ok := s.(*ast.TypeSpec); ok {
						switch u := ts.Type.(type) {
						case *ast.StructType:
							p.structs[ts.Name.Name] = u
						case *ast.InterfaceType:
							p.ifaces[ts.Name.Name] = u
						default:
							p.named[ts.Name.Name] = ts.Type
						}
					}
				}
			case *ast.FuncDecl:
				name := funcDisplayName(x)
				p.funcs[name] = x
				if r := recvTypeName(x); r != "" {
					p.methods[x.Name.Name] = append(p.methods[x.Name.Name], r)
				}
			}
		}
	}
	return p, nil
}

func (p *cpkg) fieldType(structName, field string) (*cty, bool) {
	st, ok := p.structs[structName]
	if !ok {
		return nil, false
	}
	for _, f := range st.Fields.List {
		if len(f.Names) == 0 { // embedded
			t := p.fromExpr(f.Type)
			if n := p.deref(t); n.kind == "named" {
				base := n.name
				if i := strings.LastIndex(base, "."); i >= 0 {
					base = base[i+1:]
				}
				if base == field {
					return t, true
				}
			}
			continue
		}
		for _, n := range f.Names {
			if n.Name == field {
				return p.fromExpr(f.Type), true
			}
		}
	}
	return nil, false
}

func (p *cpkg) resultTypes(fd *ast.FuncDecl) []*cty {
	var out []*cty
	if fd.Type.Results == nil {
		return out
	}
	for _, f := range fd.Type.Results.List {
		n := len(f.Names)
		if n == 0 {
			n = 1
		}
		for i := 0; i < n; i++ {
			out = append(out, p.fromExpr(f.Type))
		}
	}
	return out
}

// ---- rows

type heldLock struct {
	base, name string
	excl       bool
	deferred   bool
}

type accessRow struct {
	strct, field, fn string
	write, atomic    bool
	kind             string // KSel | KLit | KPath
	base             string
	fresh            bool
	closure          string // CNone | CInPlace | CEscaping
	locks            []heldLock
	pos              string
}

type callRow struct {
	caller, callee, closure, base string
	recvFresh, recvOwn            bool
	pos                           string
}

type siteCase struct {
	ch, dir string
}

type siteRow struct {
	nest     int    // number of enclosing if / for / switch / select-clause / closure bodies
	fn, kind string // select | send | recv | close | wg_add | wg_done | wg_wait
	cases    []siteCase
	hasDef   bool
	deferred bool
	pos      string
}

// addrefRow: a call of (*Snapshot).addRef — who takes a new reference on a snapshot, on what,
// and which locks are held.  rootOf is the text of the Writer expression when the receiver
// is X.root or a local that was assigned from X.root in this function.
type addrefRow struct {
	fn, base, rootOf, closure string
	fresh                     bool
	locks                     []heldLock
	pos                       string
}

type chanMake struct {
	fn, target string
	cap        string
}

// chanMakeOf recognises make(<channel type>[, n]) and returns the capacity text.
func (w *concWalker) chanMakeOf(e ast.Expr) (string, bool) {
	c, ok := e.(*ast.CallExpr)
	if !ok {
		return "", false
	}
	id, ok := c.Fun.(*ast.Ident)
	if !ok || id.Name != "make" || id.Obj != nil || len(c.Args) == 0 {
		return "", false
	}
	if t := w.p.under(w.p.fromExpr(c.Args[0])); t.kind != "chan" {
		return "", false
	}
	if len(c.Args) == 1 {
		return "0", true
	}
	if bl, ok := c.Args[1].(*ast.BasicLit); ok && bl.Kind == token.INT {
		return bl.Value, true
	}
	return "(-1)", true // capacity not a literal
}

type concWalker struct {
	p         *cpkg
	file      string
	fd        *ast.FuncDecl
	fn        string
	recvObj   *ast.Object
	env       map[*ast.Object]*cty
	locks     []heldLock
	closure   string
	accesses  *[]accessRow
	calls     *[]callRow
	spawns    *[]callRow
	sites     *[]siteRow
	makes     *[]chanMake
	addrefs   *[]addrefRow
	rootAlias map[*ast.Object]string // local <- X.root
	nest      int
	wantSite  bool
	// freshness
	freshDecl map[*ast.Object]token.Pos // local declared from a composite literal of a tabulated struct
	escapes   map[*ast.Object][]token.Pos
	loops     [][2]token.Pos
	inSelect  map[ast.Node]bool // comm statements of select clauses (not bare)
	addrTaken map[*ast.Object]bool
}

func (w *concWalker) posStr(p token.Pos) string {
	return fmt.Sprintf("%s:%d", w.file, fset.Position(p).Line)
}

func (w *concWalker) typeOf(e ast.Expr) *cty {
	p := w.p
	switch x := e.(type) {
	case *ast.Ident:
		if x.Obj != nil {
			if t, ok := w.env[x.Obj]; ok {
				return t
			}
		}
		return ctyUnknown
	case *ast.ParenExpr:
		return w.typeOf(x.X)
	case *ast.StarExpr:
		return p.deref(w.typeOf(x.X))
	case *ast.UnaryExpr:
		switch x.Op {
		case token.AND:
			return &cty{kind: "ptr", elem: w.typeOf(x.X)}
		case token.ARROW:
			t := p.under(w.typeOf(x.X))
			if t.kind == "chan" {
				return t.elem
			}
		}
		return ctyUnknown
	case *ast.CompositeLit:
		return p.fromExpr(x.Type)
	case *ast.SelectorExpr:
		if id, ok := x.X.(*ast.Ident); ok && id.Obj == nil && p.imports[id.Name] {
			return ctyUnknown
		}
		t := p.deref(w.typeOf(x.X))
		if t.kind == "named" {
			if ft, ok := p.fieldType(t.name, x.Sel.Name); ok {
				return ft
			}
		}
		return ctyUnknown
	case *ast.IndexExpr:
		t := p.under(w.typeOf(x.X))
		if t.kind == "slice" || t.kind == "map" {
			return t.elem
		}
		return ctyUnknown
	case *ast.SliceExpr:
		return w.typeOf(x.X)
	case *ast.TypeAssertExpr:
		if x.Type != nil {
			return p.fromExpr(x.Type)
		}
		return ctyUnknown
	case *ast.CallExpr:
		rs := w.callResults(x)
		if len(rs) > 0 {
			return rs[0]
		}
		return ctyUnknown
	}
	return ctyUnknown
}

func (w *concWalker) callee(c *ast.CallExpr) (names []string, recv ast.Expr) {
	p := w.p
	switch f := c.Fun.(type) {
	case *ast.Ident:
		if f.Obj == nil || f.Obj.Kind == ast.Fun {
			if _, ok := p.funcs[f.Name]; ok {
				return []string{f.Name}, nil
			}
		}
	case *ast.SelectorExpr:
		if id, ok := f.X.(*ast.Ident); ok && id.Obj == nil && p.imports[id.Name] {
			return nil, nil
		}
		t := p.deref(w.typeOf(f.X))
		if t.kind == "named" {
			if _, ok := p.funcs[t.name+"."+f.Sel.Name]; ok {
				return []string{t.name + "." + f.Sel.Name}, f.X
			}
			if _, ok := p.ifaces[t.name]; ok {
				var out []string
				for _, r := range p.methods[f.Sel.Name] {
					out = append(out, r+"."+f.Sel.Name)
				}
				sort.Strings(out)
				return out, f.X
			}
			// embedded fields (one level): segmentWrapper embeds refCounter / segment.Segment
			if st, ok := p.structs[t.name]; ok {
				for _, fl := range st.Fields.List {
					if len(fl.Names) == 0 {
						et := p.deref(p.fromExpr(fl.Type))
						if et.kind == "named" {
							if _, ok := p.ifaces[et.name]; ok {
								var out []string
								for _, r := range p.methods[f.Sel.Name] {
									out = append(out, r+"."+f.Sel.Name)
								}
								if len(out) > 0 {
									sort.Strings(out)
									return out, f.X
								}
							}
							if _, ok := p.funcs[et.name+"."+f.Sel.Name]; ok {
								return []string{et.name + "." + f.Sel.Name}, f.X
							}
						}
					}
				}
			}
		}
	}
	return nil, nil
}

func (w *concWalker) callResults(c *ast.CallExpr) []*cty {
	p := w.p
	if id, ok := c.Fun.(*ast.Ident); ok && id.Obj == nil {
		switch id.Name {
		case "make":
			if len(c.Args) > 0 {
				return []*cty{p.fromExpr(c.Args[0])}
			}
		case "new":
			if len(c.Args) > 0 {
				return []*cty{{kind: "ptr", elem: p.fromExpr(c.Args[0])}}
			}
		case "append":
			if len(c.Args) > 0 {
				return []*cty{w.typeOf(c.Args[0])}
			}
		case "len", "cap":
			return []*cty{{kind: "named", name: "int"}}
		}
		if _, ok := p.structs[id.Name]; ok {
			return []*cty{{kind: "named", name: id.Name}}
		}
		if _, ok := p.named[id.Name]; ok {
			return []*cty{{kind: "named", name: id.Name}}
		}
	}
	names, _ := w.callee(c)
	if len(names) == 1 {
		return p.resultTypes(p.funcs[names[0]])
	}
	if len(names) > 1 { // interface: take a common signature from the first
		return p.resultTypes(p.funcs[names[0]])
	}
	return nil
}

// lockOp recognises X.Lock() / X.RLock() / X.Unlock() / X.RUnlock() on sync.Mutex / sync.RWMutex.
func (w *concWalker) lockOp(c *ast.CallExpr) (op string, l heldLock, ok bool) {
	sel, isSel := c.Fun.(*ast.SelectorExpr)
	if !isSel || len(c.Args) != 0 {
		return "", l, false
	}
	switch sel.Sel.Name {
	case "Lock", "RLock", "Unlock", "RUnlock":
	default:
		return "", l, false
	}
	t := w.typeOf(sel.X)
	if t.kind != "named" || (t.name != "sync.Mutex" && t.name != "sync.RWMutex") {
		return "", l, false
	}
	l.excl = sel.Sel.Name == "Lock" || sel.Sel.Name == "Unlock"
	if fs, isF := sel.X.(*ast.SelectorExpr); isF {
		bt := w.p.deref(w.typeOf(fs.X))
		l.base = types.ExprString(fs.X)
		if bt.kind == "named" {
			l.name = bt.name + "." + fs.Sel.Name
		} else {
			l.name = "?." + fs.Sel.Name
		}
	} else {
		l.base = ""
		l.name = types.ExprString(sel.X)
	}
	return sel.Sel.Name, l, true
}

func copyLocks(l []heldLock) []heldLock { return append([]heldLock(nil), l...) }

func intersectLocks(a, b []heldLock) []heldLock {
	var out []heldLock
	for _, x := range a {
		for _, y := range b {
			if x.base == y.base && x.name == y.name && x.excl == y.excl {
				out = append(out, x)
				break
			}
		}
	}
	return out
}

func (w *concWalker) isFresh(base ast.Expr, at token.Pos) bool {
	id, ok := base.(*ast.Ident)
	if !ok || id.Obj == nil {
		return false
	}
	if w.closure != "CNone" {
		return false
	}
	// a local variable holding a tabulated struct BY VALUE (a private copy), never
	// address-taken and never captured by a function literal
	if t, ok := w.env[id.Obj]; ok && t.kind == "named" && concTabulated[t.name] && !w.addrTaken[id.Obj] {
		switch id.Obj.Decl.(type) {
		case *ast.AssignStmt, *ast.ValueSpec:
			return true
		}
	}
	decl, ok := w.freshDecl[id.Obj]
	if !ok {
		return false
	}
	for _, e := range w.escapes[id.Obj] {
		if e <= at {
			return false
		}
	}
	for _, lp := range w.loops {
		if lp[0] <= at && at <= lp[1] {
			if lp[0] <= decl && decl <= lp[1] {
				continue // a new object per iteration
			}
			for _, e := range w.escapes[id.Obj] {
				if lp[0] <= e && e <= lp[1] {
					return false
				}
			}
		}
	}
	return true
}

func (w *concWalker) emitAccess(strct, field string, base ast.Expr, write, atomic bool, kind string, at token.Pos) {
	r := accessRow{strct: strct, field: field, fn: w.fn, write: write, atomic: atomic, kind: kind,
		closure: w.closure, locks: copyLocks(w.locks), pos: w.posStr(at)}
	if base != nil {
		r.base = types.ExprString(base)
		r.fresh = w.isFresh(base, at)
	} else {
		r.fresh = true
	}
	*w.accesses = append(*w.accesses, r)
}

// ctx: "r" read, "w" write, "ar" atomic read, "aw" atomic write, "p" path component (read)
func (w *concWalker) expr(e ast.Expr, ctx string) {
	p := w.p
	switch x := e.(type) {
	case nil:
	case *ast.Ident, *ast.BasicLit:
	case *ast.ParenExpr:
		w.expr(x.X, ctx)
	case *ast.SelectorExpr:
		if id, ok := x.X.(*ast.Ident); ok && id.Obj == nil && p.imports[id.Name] {
			return
		}
		t := p.deref(w.typeOf(x.X))
		if t.kind == "named" && concTabulated[t.name] {
			if ft, ok := p.fieldType(t.name, x.Sel.Name); ok {
				isSync := ft.kind == "named" && strings.HasPrefix(ft.name, "sync.")
				if !isSync {
					kind := "KSel"
					_, isStructVal := p.structs[ft.name]
					if ctx == "p" && ft.kind == "named" && isStructVal {
						kind = "KPath"
					}
					w.emitAccess(t.name, x.Sel.Name, x.X, ctx == "w" || ctx == "aw", (ctx == "ar" || ctx == "aw") && kind == "KSel", kind, x.Sel.Pos())
				}
			}
		}
		w.expr(x.X, "p")
	case *ast.StarExpr:
		w.expr(x.X, "r")
	case *ast.UnaryExpr:
		if x.Op == token.AND {
			// address taken outside sync/atomic: treated as a plain write (conservative)
			if _, isLit := x.X.(*ast.CompositeLit); isLit {
				w.expr(x.X, "r")
			} else if _, isSel := x.X.(*ast.SelectorExpr); isSel {
				w.expr(x.X, "w")
			} else {
				w.expr(x.X, "r")
			}
			return
		}
		if x.Op == token.ARROW && w.wantSite && !w.inSelect[x] {
			*w.sites = append(*w.sites, siteRow{nest: w.nest, fn: w.fn, kind: "recv", cases: []siteCase{{types.ExprString(x.X), "recv"}}, pos: w.posStr(x.Pos())})
		}
		w.expr(x.X, "r")
	case *ast.BinaryExpr:
		w.expr(x.X, "r")
		w.expr(x.Y, "r")
	case *ast.IndexExpr:
		w.expr(x.X, "r")
		w.expr(x.Index, "r")
	case *ast.SliceExpr:
		w.expr(x.X, "r")
		w.expr(x.Low, "r")
		w.expr(x.High, "r")
		w.expr(x.Max, "r")
	case *ast.TypeAssertExpr:
		w.expr(x.X, "r")
	case *ast.KeyValueExpr:
		w.expr(x.Value, "r")
	case *ast.CompositeLit:
		t := p.fromExpr(x.Type)
		for _, el := range x.Elts {
			if kv, ok := el.(*ast.KeyValueExpr); ok {
				if id, ok := kv.Key.(*ast.Ident); ok && t.kind == "named" && concTabulated[t.name] {
					if ft, ok := p.fieldType(t.name, id.Name); ok && !(ft.kind == "named" && strings.HasPrefix(ft.name, "sync.")) {
						w.emitAccess(t.name, id.Name, nil, true, false, "KLit", id.Pos())
					}
				}
				if id, ok := kv.Key.(*ast.Ident); ok && w.wantSite {
					if cp, ok := w.chanMakeOf(kv.Value); ok {
						*w.makes = append(*w.makes, chanMake{w.fn, id.Name, cp})
					}
				}
				w.expr(kv.Value, "r")
			} else {
				w.expr(el, "r")
			}
		}
	case *ast.FuncLit:
		w.funcLit(x, "CEscaping")
	case *ast.CallExpr:
		w.call(x, false, false)
	}
}

func (w *concWalker) funcLit(fl *ast.FuncLit, kind string) {
	savedLocks, savedClosure := w.locks, w.closure
	w.locks = nil
	if w.closure != "CEscaping" {
		w.closure = kind
	}
	w.declareFields(fl.Type.Params)
	w.nest++
	w.block(fl.Body.List)
	w.nest--
	w.locks, w.closure = savedLocks, savedClosure
}

// rootOfExpr: e is X.root with X of type (*)Writer -> text of X, else "".
func (w *concWalker) rootOfExpr(e ast.Expr) string {
	if pe, ok := e.(*ast.ParenExpr); ok {
		return w.rootOfExpr(pe.X)
	}
	sel, ok := e.(*ast.SelectorExpr)
	if !ok || sel.Sel.Name != "root" {
		return ""
	}
	t := w.p.deref(w.typeOf(sel.X))
	if t.kind == "named" && t.name == "Writer" {
		return types.ExprString(sel.X)
	}
	return ""
}

func (w *concWalker) call(c *ast.CallExpr, isGo, isDefer bool) {
	p := w.p
	// sync/atomic
	if sel, ok := c.Fun.(*ast.SelectorExpr); ok {
		if id, ok := sel.X.(*ast.Ident); ok && id.Obj == nil && id.Name == "atomic" {
			wr := !strings.HasPrefix(sel.Sel.Name, "Load")
			for _, a := range c.Args {
				if u, ok := a.(*ast.UnaryExpr); ok && u.Op == token.AND {
					if wr {
						w.expr(u.X, "aw")
					} else {
						w.expr(u.X, "ar")
					}
				} else {
					w.expr(a, "r")
				}
			}
			return
		}
	}
	// lock operations
	if op, l, ok := w.lockOp(c); ok {
		switch op {
		case "Lock", "RLock":
			w.locks = append(w.locks, l)
		default:
			if isDefer {
				for i := range w.locks {
					if w.locks[i].base == l.base && w.locks[i].name == l.name {
						w.locks[i].deferred = true
					}
				}
			} else {
				var out []heldLock
				for _, h := range w.locks {
					if h.base == l.base && h.name == l.name && !h.deferred {
						continue
					}
					out = append(out, h)
				}
				w.locks = out
			}
		}
		if fs, ok := c.Fun.(*ast.SelectorExpr); ok {
			if inner, ok := fs.X.(*ast.SelectorExpr); ok {
				w.expr(inner.X, "p")
			}
		}
		return
	}
	// sites: close(ch), asyncTasks.Add/Done/Wait
	if w.wantSite {
		if id, ok := c.Fun.(*ast.Ident); ok && id.Obj == nil && id.Name == "close" && len(c.Args) == 1 {
			*w.sites = append(*w.sites, siteRow{nest: w.nest, fn: w.fn, kind: "close", cases: []siteCase{{types.ExprString(c.Args[0]), "close"}}, deferred: isDefer, pos: w.posStr(c.Pos())})
		}
		if sel, ok := c.Fun.(*ast.SelectorExpr); ok {
			if t := w.typeOf(sel.X); t.kind == "named" && t.name == "sync.WaitGroup" {
				k := map[string]string{"Add": "wg_add", "Done": "wg_done", "Wait": "wg_wait"}[sel.Sel.Name]
				if k != "" {
					*w.sites = append(*w.sites, siteRow{nest: w.nest, fn: w.fn, kind: k, cases: []siteCase{{types.ExprString(sel.X), k}}, deferred: isDefer, pos: w.posStr(c.Pos())})
				}
			}
		}
	}
	// call edges
	names, recv := w.callee(c)
	for _, n := range names {
		if n == "Snapshot.addRef" && recv != nil {
			row := addrefRow{fn: w.fn, base: types.ExprString(recv), closure: w.closure, fresh: w.isFresh(recv, c.Pos()),
				locks: copyLocks(w.locks), pos: w.posStr(c.Pos())}
			row.rootOf = w.rootOfExpr(recv)
			if id, ok := recv.(*ast.Ident); ok && id.Obj != nil {
				if wr, ok := w.rootAlias[id.Obj]; ok {
					row.rootOf = wr
				}
			}
			*w.addrefs = append(*w.addrefs, row)
		}
		row := callRow{caller: w.fn, callee: n, closure: w.closure, pos: w.posStr(c.Pos())}
		if recv != nil {
			row.base = types.ExprString(recv)
			row.recvFresh = w.isFresh(recv, c.Pos())
			if id, ok := recv.(*ast.Ident); ok && id.Obj != nil && id.Obj == w.recvObj && w.closure == "CNone" {
				row.recvOwn = true
			}
		}
		if isGo {
			*w.spawns = append(*w.spawns, row)
		} else {
			*w.calls = append(*w.calls, row)
		}
	}
	// callee expression and arguments
	switch f := c.Fun.(type) {
	case *ast.SelectorExpr:
		if len(names) > 0 {
			w.expr(f.X, "r") // method receiver
		} else {
			w.expr(f, "r") // call through a field of function type, or an unknown method
		}
	case *ast.FuncLit:
		if isGo {
			*w.spawns = append(*w.spawns, callRow{caller: w.fn, callee: "<closure>", closure: w.closure, pos: w.posStr(c.Pos())})
			w.funcLit(f, "CEscaping")
		} else {
			w.funcLit(f, "CInPlace")
		}
	default:
		w.expr(c.Fun, "r")
	}
	for _, a := range c.Args {
		w.expr(a, "r")
	}
	_ = p
}

func (w *concWalker) declare(id *ast.Ident, t *cty) {
	if id == nil || id.Obj == nil || id.Name == "_" {
		return
	}
	if t == nil {
		t = ctyUnknown
	}
	w.env[id.Obj] = t
}

func (w *concWalker) declareFields(fl *ast.FieldList) {
	if fl == nil {
		return
	}
	for _, f := range fl.List {
		t := w.p.fromExpr(f.Type)
		for _, n := range f.Names {
			w.declare(n, t)
		}
	}
}

func terminates(list []ast.Stmt) bool {
	if len(list) == 0 {
		return false
	}
	switch x := list[len(list)-1].(type) {
	case *ast.ReturnStmt:
		return true
	case *ast.BranchStmt:
		return x.Tok != token.FALLTHROUGH
	case *ast.ExprStmt:
		if c, ok := x.X.(*ast.CallExpr); ok {
			if id, ok := c.Fun.(*ast.Ident); ok && id.Name == "panic" {
				return true
			}
		}
	case *ast.BlockStmt:
		return terminates(x.List)
	}
	return false
}

func (w *concWalker) block(list []ast.Stmt) {
	for _, s := range list {
		w.stmt(s)
	}
}

func (w *concWalker) assignLHS(e ast.Expr) {
	switch x := e.(type) {
	case *ast.Ident:
	case *ast.SelectorExpr:
		w.expr(x, "w")
	case *ast.IndexExpr: // element write: the field holding the slice/map is read
		w.expr(x.X, "r")
		w.expr(x.Index, "r")
	case *ast.StarExpr:
		w.expr(x.X, "r")
	case *ast.ParenExpr:
		w.assignLHS(x.X)
	default:
		w.expr(e, "r")
	}
}

func (w *concWalker) stmt(s ast.Stmt) {
	p := w.p
	switch x := s.(type) {
	case nil:
	case *ast.ExprStmt:
		if c, ok := x.X.(*ast.CallExpr); ok {
			w.call(c, false, false)
		} else {
			w.expr(x.X, "r")
		}
	case *ast.AssignStmt:
		for _, r := range x.Rhs {
			w.expr(r, "r")
		}
		if len(x.Lhs) == len(x.Rhs) {
			for i, r := range x.Rhs {
				if wr := w.rootOfExpr(r); wr != "" {
					if id, ok := x.Lhs[i].(*ast.Ident); ok && id.Obj != nil {
						w.rootAlias[id.Obj] = wr
					}
				}
			}
		}
		if w.wantSite && len(x.Lhs) == len(x.Rhs) {
			for i, r := range x.Rhs {
				if cp, ok := w.chanMakeOf(r); ok {
					*w.makes = append(*w.makes, chanMake{w.fn, types.ExprString(x.Lhs[i]), cp})
				}
			}
		}
		if x.Tok == token.DEFINE {
			var rts []*cty
			if len(x.Rhs) == 1 && len(x.Lhs) > 1 {
				switch r := x.Rhs[0].(type) {
				case *ast.CallExpr:
					rts = w.callResults(r)
				default:
					rts = []*cty{w.typeOf(r), {kind: "named", name: "bool"}}
				}
			} else {
				for _, r := range x.Rhs {
					rts = append(rts, w.typeOf(r))
				}
			}
			for i, l := range x.Lhs {
				if id, ok := l.(*ast.Ident); ok {
					if id.Obj != nil && id.Obj.Decl == x { // newly declared here
						var t *cty
						if i < len(rts) {
							t = rts[i]
						}
						w.declare(id, t)
					}
				} else {
					w.assignLHS(l)
				}
			}
		} else {
			for _, l := range x.Lhs {
				w.assignLHS(l)
			}
		}
	case *ast.IncDecStmt:
		w.assignLHS(x.X)
	case *ast.DeclStmt:
		if gd, ok := x.Decl.(*ast.GenDecl); ok {
			for _, sp := range gd.Specs {
				if vs, ok := sp.(*ast.ValueSpec); ok {
					for _, v := range vs.Values {
						w.expr(v, "r")
					}
					for i, n := range vs.Names {
						var t *cty
						if vs.Type != nil {
							t = p.fromExpr(vs.Type)
						} else if i < len(vs.Values) {
							t = w.typeOf(vs.Values[i])
						}
						w.declare(n, t)
					}
				}
			}
		}
	case *ast.GoStmt:
		w.call(x.Call, true, false)
	case *ast.DeferStmt:
		w.call(x.Call, false, true)
	case *ast.ReturnStmt:
		for _, r := range x.Results {
			w.expr(r, "r")
		}
	case *ast.BlockStmt:
		w.block(x.List)
	case *ast.LabeledStmt:
		w.stmt(x.Stmt)
	case *ast.BranchStmt:
	case *ast.SendStmt:
		if w.wantSite && !w.inSelect[x] {
			*w.sites = append(*w.sites, siteRow{nest: w.nest, fn: w.fn, kind: "send", cases: []siteCase{{types.ExprString(x.Chan), "send"}}, pos: w.posStr(x.Pos())})
		}
		w.expr(x.Chan, "r")
		w.expr(x.Value, "r")
	case *ast.IfStmt:
		w.stmt(x.Init)
		w.expr(x.Cond, "r")
		before := copyLocks(w.locks)
		w.nest++
		w.block(x.Body.List)
		w.nest--
		afterThen, thenTerm := copyLocks(w.locks), terminates(x.Body.List)
		w.locks = copyLocks(before)
		elseTerm := false
		if x.Else != nil {
			if b, isBlock := x.Else.(*ast.BlockStmt); isBlock {
				w.nest++
				w.stmt(x.Else)
				w.nest--
				elseTerm = terminates(b.List)
			} else {
				w.stmt(x.Else) // else-if chain
			}
		}
		afterElse := copyLocks(w.locks)
		switch {
		case thenTerm && !elseTerm:
			w.locks = afterElse
		case elseTerm && !thenTerm:
			w.locks = afterThen
		default:
			w.locks = intersectLocks(afterThen, afterElse)
		}
	case *ast.ForStmt:
		w.stmt(x.Init)
		w.expr(x.Cond, "r")
		before := copyLocks(w.locks)
		w.loops = append(w.loops, [2]token.Pos{x.Pos(), x.End()})
		w.nest++
		w.block(x.Body.List)
		w.nest--
		w.stmt(x.Post)
		w.loops = w.loops[:len(w.loops)-1]
		w.locks = intersectLocks(before, w.locks)
	case *ast.RangeStmt:
		w.expr(x.X, "r")
		t := p.under(w.typeOf(x.X))
		if x.Tok == token.DEFINE {
			if id, ok := x.Key.(*ast.Ident); ok {
				w.declare(id, &cty{kind: "named", name: "int"})
			}
			if id, ok := x.Value.(*ast.Ident); ok {
				if t.kind == "slice" || t.kind == "map" {
					w.declare(id, t.elem)
				} else {
					w.declare(id, ctyUnknown)
				}
			}
		} else {
			if x.Key != nil {
				w.assignLHS(x.Key)
			}
			if x.Value != nil {
				w.assignLHS(x.Value)
			}
		}
		before := copyLocks(w.locks)
		w.loops = append(w.loops, [2]token.Pos{x.Pos(), x.End()})
		w.nest++
		w.block(x.Body.List)
		w.nest--
		w.loops = w.loops[:len(w.loops)-1]
		w.locks = intersectLocks(before, w.locks)
	case *ast.SwitchStmt:
		w.stmt(x.Init)
		w.expr(x.Tag, "r")
		w.clauses(x.Body.List)
	case *ast.TypeSwitchStmt:
		w.stmt(x.Init)
		w.stmt(x.Assign)
		w.clauses(x.Body.List)
	case *ast.SelectStmt:
		if w.wantSite {
			row := siteRow{nest: w.nest, fn: w.fn, kind: "select", pos: w.posStr(x.Pos())}
			for _, c := range x.Body.List {
				cc := c.(*ast.CommClause)
				switch m := cc.Comm.(type) {
				case nil:
					row.hasDef = true
				case *ast.SendStmt:
					w.inSelect[m] = true
					row.cases = append(row.cases, siteCase{types.ExprString(m.Chan), "send"})
				case *ast.ExprStmt:
					if u, ok := m.X.(*ast.UnaryExpr); ok && u.Op == token.ARROW {
						w.inSelect[u] = true
						row.cases = append(row.cases, siteCase{types.ExprString(u.X), "recv"})
					}
				case *ast.AssignStmt:
					if len(m.Rhs) == 1 {
						if u, ok := m.Rhs[0].(*ast.UnaryExpr); ok && u.Op == token.ARROW {
							w.inSelect[u] = true
							row.cases = append(row.cases, siteCase{types.ExprString(u.X), "recv"})
						}
					}
				}
			}
			*w.sites = append(*w.sites, row)
		}
		w.clauses(x.Body.List)
	}
}

func (w *concWalker) clauses(list []ast.Stmt) {
	before := copyLocks(w.locks)
	var result []heldLock
	first := true
	hasDefault := false
	for _, c := range list {
		w.locks = copyLocks(before)
		var body []ast.Stmt
		switch cc := c.(type) {
		case *ast.CaseClause:
			if cc.List == nil {
				hasDefault = true
			}
			for _, e := range cc.List {
				w.expr(e, "r")
			}
			body = cc.Body
		case *ast.CommClause:
			if cc.Comm == nil {
				hasDefault = true
			}
			w.stmt(cc.Comm)
			body = cc.Body
		}
		w.nest++
		w.block(body)
		w.nest--
		if !terminates(body) {
			if first {
				result, first = copyLocks(w.locks), false
			} else {
				result = intersectLocks(result, w.locks)
			}
		}
	}
	_, isSelect := interface{}(nil), false
	for _, c := range list {
		if _, ok := c.(*ast.CommClause); ok {
			isSelect = true
		}
	}
	if !hasDefault && !isSelect { // a switch without default may fall through unchanged
		if first {
			result, first = before, false
		} else {
			result = intersectLocks(result, before)
		}
	}
	if first {
		result = before
	}
	w.locks = result
}

// collectFresh finds locals declared from a composite literal of a tabulated struct and
// the positions at which they may become visible to other code (any use other than as
// the base of a selector; any use inside a function literal).
func (w *concWalker) collectFresh() {
	w.freshDecl = map[*ast.Object]token.Pos{}
	w.escapes = map[*ast.Object][]token.Pos{}
	isTabLit := func(e ast.Expr) bool {
		if u, ok := e.(*ast.UnaryExpr); ok && u.Op == token.AND {
			e = u.X
		}
		cl, ok := e.(*ast.CompositeLit)
		if !ok {
			return false
		}
		t := w.p.fromExpr(cl.Type)
		return t.kind == "named" && concTabulated[t.name]
	}
	ast.Inspect(w.fd.Body, func(n ast.Node) bool {
		if as, ok := n.(*ast.AssignStmt); ok && as.Tok == token.DEFINE && len(as.Lhs) == len(as.Rhs) {
			for i, l := range as.Lhs {
				if id, ok := l.(*ast.Ident); ok && id.Obj != nil && id.Obj.Decl == as && isTabLit(as.Rhs[i]) {
					w.freshDecl[id.Obj] = id.Pos()
				}
			}
		}
		return true
	})
	// identifiers whose address is taken, or that are used inside a function literal
	w.addrTaken = map[*ast.Object]bool{}
	var scan func(n ast.Node, inLit bool)
	scan = func(n ast.Node, inLit bool) {
		ast.Inspect(n, func(m ast.Node) bool {
			switch x := m.(type) {
			case *ast.FuncLit:
				if m != n {
					scan(x.Body, true)
					return false
				}
			case *ast.UnaryExpr:
				if x.Op == token.AND {
					if id, ok := x.X.(*ast.Ident); ok && id.Obj != nil {
						w.addrTaken[id.Obj] = true
					}
				}
			case *ast.Ident:
				if inLit && x.Obj != nil {
					w.addrTaken[x.Obj] = true
				}
			}
			return true
		})
	}
	scan(w.fd.Body, false)
	if len(w.freshDecl) == 0 {
		return
	}
	// re-assignment of the variable makes it non-fresh from that point (escape)
	var visit func(n ast.Node, inLit token.Pos)
	visit = func(n ast.Node, inLit token.Pos) {
		ast.Inspect(n, func(m ast.Node) bool {
			switch x := m.(type) {
			case *ast.FuncLit:
				if m != n {
					visit(x.Body, x.Pos())
					return false
				}
			case *ast.SelectorExpr:
				if id, ok := x.X.(*ast.Ident); ok && id.Obj != nil {
					if _, ok := w.freshDecl[id.Obj]; ok {
						if inLit != token.NoPos {
							w.escapes[id.Obj] = append(w.escapes[id.Obj], inLit)
						}
						return false // base of a selector: not an escape
					}
				}
			case *ast.Ident:
				if x.Obj != nil {
					if d, ok := w.freshDecl[x.Obj]; ok && x.Pos() != d {
						at := x.Pos()
						if inLit != token.NoPos {
							at = inLit
						}
						w.escapes[x.Obj] = append(w.escapes[x.Obj], at)
					}
				}
			}
			return true
		})
	}
	visit(w.fd.Body, token.NoPos)
}

func coqStr(s string) string { return "\"" + strings.ReplaceAll(s, "\"", "\"\"") + "\"" }
func coqBool(b bool) string {
	if b {
		return "true"
	}
	return "false"
}

func concSection(root string) (string, string, []string) {
	p, err := loadConcPkg(root)
	if err != nil {
		return "Conc", "", []string{err.Error()}
	}
	var errs []string
	for s := range concTabulated {
		if _, ok := p.structs[s]; !ok {
			errs = append(errs, "tabulated struct "+s+" not found in index/*.go")
		}
	}
	for f := range concSiteFuncs {
		if _, ok := p.funcs[f]; !ok {
			errs = append(errs, "function "+f+" not found in index/*.go")
		}
	}
	var accesses []accessRow
	var calls, spawns []callRow
	var sites []siteRow
	var makes []chanMake
	var addrefs []addrefRow
	fileNames := make([]string, 0, len(p.files))
	for n := range p.files {
		fileNames = append(fileNames, n)
	}
	sort.Strings(fileNames)
	type exitInfo struct {
		returns, dones int
		deferred       bool
		doneLast       bool
	}
	exits := map[string]exitInfo{}
	for _, fn := range fileNames {
		f := p.files[fn]
		for _, d := range f.Decls {
			fd, ok := d.(*ast.FuncDecl)
			if !ok || fd.Body == nil {
				continue
			}
			w := &concWalker{p: p, file: fn, fd: fd, fn: funcDisplayName(fd), env: map[*ast.Object]*cty{}, closure: "CNone",
				accesses: &accesses, calls: &calls, spawns: &spawns, sites: &sites, makes: &makes, addrefs: &addrefs, rootAlias: map[*ast.Object]string{}, inSelect: map[ast.Node]bool{}}
			w.wantSite = concSiteFuncs[w.fn]
			if fd.Recv != nil {
				w.declareFields(fd.Recv)
				if len(fd.Recv.List) > 0 && len(fd.Recv.List[0].Names) > 0 {
					w.recvObj = fd.Recv.List[0].Names[0].Obj
				}
			}
			w.declareFields(fd.Type.Params)
			w.declareFields(fd.Type.Results)
			w.collectFresh()
			w.block(fd.Body.List)
			// loop exits
			for _, lf := range concLoopFuncs {
				if lf == w.fn {
					var ei exitInfo
					var inspect func(n ast.Node) bool
					inspect = func(n ast.Node) bool {
						switch x := n.(type) {
						case *ast.FuncLit:
							return false
						case *ast.ReturnStmt:
							ei.returns++
						case *ast.DeferStmt:
							if sel, ok := x.Call.Fun.(*ast.SelectorExpr); ok && sel.Sel.Name == "Done" && types.ExprString(sel.X) == "s.asyncTasks" {
								ei.deferred = true
								ei.dones++
							}
							return false
						case *ast.CallExpr:
							if sel, ok := x.Fun.(*ast.SelectorExpr); ok && sel.Sel.Name == "Done" && types.ExprString(sel.X) == "s.asyncTasks" {
								ei.dones++
							}
						}
						return true
					}
					ast.Inspect(fd.Body, inspect)
					if n := len(fd.Body.List); n > 0 {
						if es, ok := fd.Body.List[n-1].(*ast.ExprStmt); ok {
							if c, ok := es.X.(*ast.CallExpr); ok {
								if sel, ok := c.Fun.(*ast.SelectorExpr); ok && sel.Sel.Name == "Done" && types.ExprString(sel.X) == "s.asyncTasks" {
									ei.doneLast = true
								}
							}
						}
					}
					// the deferred Done must be the first statement to cover every return
					if ei.deferred {
						if ds, ok := fd.Body.List[0].(*ast.DeferStmt); !ok || types.ExprString(ds.Call.Fun) != "s.asyncTasks.Done" {
							ei.deferred = false
						}
					}
					exits[w.fn] = ei
				}
			}
		}
	}

	var sb strings.Builder
	sb.WriteString("From Coq Require Import String.\nOpen Scope string_scope.\n\n")
	sb.WriteString("(* index/*.go, non-test, non-verif files; tabulated structs: Writer, Snapshot, closeOnLastRefCounter,\n   KeepNLatestDeletionPolicy, Stats.  Fields of type sync.* are the synchronisation objects themselves\n   and have no rows. *)\n")
	sb.WriteString("Inductive access_kind := KSel | KLit | KPath.\n")
	sb.WriteString("Inductive closure_kind := CNone | CInPlace | CEscaping.\n")
	sb.WriteString("(* a held lock: base expression text, lock name Struct.field, exclusive (Lock) or shared (RLock) *)\n")
	sb.WriteString("Record held_lock := mk_held { hl_base : string; hl_name : string; hl_excl : bool }.\n")
	sb.WriteString("Record access_row := mk_access { a_struct : string; a_field : string; a_func : string; a_write : bool;\n  a_atomic : bool; a_kind : access_kind; a_base : string; a_fresh : bool; a_closure : closure_kind;\n  a_locks : list held_lock; a_pos : string }.\n")
	sb.WriteString("Record call_row := mk_call { c_caller : string; c_callee : string; c_closure : closure_kind; c_base : string;\n  c_recv_fresh : bool; c_recv_own : bool; c_pos : string }.\n")
	sb.WriteString("Inductive site_kind := SSelect | SSend | SRecv | SClose | SWgAdd | SWgDone | SWgWait.\n")
	sb.WriteString("Inductive chan_dir := DSend | DRecv.\n")
	sb.WriteString("Record site_row := mk_site { s_func : string; s_kind : site_kind; s_cases : list (string * chan_dir);\n  s_default : bool; s_deferred : bool; s_nest : Z; s_pos : string }.\n")
	sb.WriteString("(* a call of Snapshot.addRef: function, receiver text, receiver is a fresh local, the Writer\n   expression X when the receiver is X.root or a local assigned from X.root, closure kind, locks held *)\n")
	sb.WriteString("Record addref_row := mk_addref { r_func : string; r_base : string; r_fresh : bool; r_root_of : string;\n  r_closure : closure_kind; r_locks : list held_lock; r_pos : string }.\n")
	sb.WriteString("Record exit_row := mk_exit { e_func : string; e_returns : Z; e_dones : Z; e_done_deferred_first : bool; e_done_last : bool }.\n\n")

	sb.WriteString("Definition accesses : list access_row := [\n")
	for i, r := range accesses {
		var ls []string
		for _, l := range r.locks {
			ls = append(ls, fmt.Sprintf("mk_held %s %s %s", coqStr(l.base), coqStr(l.name), coqBool(l.excl)))
		}
		fmt.Fprintf(&sb, "  mk_access %s %s %s %s %s %s %s %s %s [%s] %s", coqStr(r.strct), coqStr(r.field), coqStr(r.fn),
			coqBool(r.write), coqBool(r.atomic), r.kind, coqStr(r.base), coqBool(r.fresh), r.closure, strings.Join(ls, "; "), coqStr(r.pos))
		if i+1 < len(accesses) {
			sb.WriteString(";")
		}
		sb.WriteString("\n")
	}
	sb.WriteString("].\n\n")
	writeCalls := func(name string, rows []callRow) {
		fmt.Fprintf(&sb, "Definition %s : list call_row := [\n", name)
		for i, r := range rows {
			fmt.Fprintf(&sb, "  mk_call %s %s %s %s %s %s %s", coqStr(r.caller), coqStr(r.callee), r.closure, coqStr(r.base),
				coqBool(r.recvFresh), coqBool(r.recvOwn), coqStr(r.pos))
			if i+1 < len(rows) {
				sb.WriteString(";")
			}
			sb.WriteString("\n")
		}
		sb.WriteString("].\n\n")
	}
	writeCalls("calls", calls)
	writeCalls("spawns", spawns)
	kindName := map[string]string{"select": "SSelect", "send": "SSend", "recv": "SRecv", "close": "SClose", "wg_add": "SWgAdd", "wg_done": "SWgDone", "wg_wait": "SWgWait"}
	sb.WriteString("Definition select_sites : list site_row := [\n")
	for i, r := range sites {
		var cs []string
		for _, c := range r.cases {
			d := "DRecv"
			if c.dir == "send" {
				d = "DSend"
			}
			cs = append(cs, fmt.Sprintf("(%s, %s)", coqStr(c.ch), d))
		}
		fmt.Fprintf(&sb, "  mk_site %s %s [%s] %s %s %d %s", coqStr(r.fn), kindName[r.kind], strings.Join(cs, "; "), coqBool(r.hasDef), coqBool(r.deferred), r.nest, coqStr(r.pos))
		if i+1 < len(sites) {
			sb.WriteString(";")
		}
		sb.WriteString("\n")
	}
	sb.WriteString("].\n\n")
	sb.WriteString("Definition snapshot_addrefs : list addref_row := [\n")
	for i, r := range addrefs {
		var ls []string
		for _, l := range r.locks {
			ls = append(ls, fmt.Sprintf("mk_held %s %s %s", coqStr(l.base), coqStr(l.name), coqBool(l.excl)))
		}
		fmt.Fprintf(&sb, "  mk_addref %s %s %s %s %s [%s] %s", coqStr(r.fn), coqStr(r.base), coqBool(r.fresh), coqStr(r.rootOf), r.closure,
			strings.Join(ls, "; "), coqStr(r.pos))
		if i+1 < len(addrefs) {
			sb.WriteString(";")
		}
		sb.WriteString("\n")
	}
	sb.WriteString("].\n\n")
	sb.WriteString("(* channel constructions in the site functions: function, target, capacity *)\n")
	sb.WriteString("Definition chan_makes : list (string * string * Z) := [\n")
	for i, m := range makes {
		fmt.Fprintf(&sb, "  (%s, %s, %s)", coqStr(m.fn), coqStr(m.target), m.cap)
		if i+1 < len(makes) {
			sb.WriteString(";")
		}
		sb.WriteString("\n")
	}
	sb.WriteString("].\n\n")
	sb.WriteString("Definition loop_exits : list exit_row := [\n")
	for i, lf := range concLoopFuncs {
		ei, ok := exits[lf]
		if !ok {
			errs = append(errs, "loop function "+lf+" not found")
		}
		fmt.Fprintf(&sb, "  mk_exit %s %d %d %s %s", coqStr(lf), ei.returns, ei.dones, coqBool(ei.deferred), coqBool(ei.doneLast))
		if i+1 < len(concLoopFuncs) {
			sb.WriteString(";")
		}
		sb.WriteString("\n")
	}
	sb.WriteString("].\n")
	return "Conc", sb.String(), errs
}

func init() {
	sections = append(sections, concSection)
}
