package main

// extraSpecs: further (name, locator) entries added as more properties are modelled.
func extraSpecs() []spec {
	return []spec{}
}

// extraSections: generated tables that are not single constants.
func extraSections(root string) (string, []string) {
	return "", nil
}
