package main

// merge planner (C19): the literal DefaultMergePlanOptions (the only composite literal of type
// Options in merge_plan.go) and the limit tested by ValidateMergePlannerOptions.
func init() {
	const f = "index/mergeplan/merge_plan.go"
	specs = append(specs,
		spec{area: "Plan", coq: "plan_default_max_segments_per_tier", file: f, kind: "fieldlit", a: "Options", b: "MaxSegmentsPerTier"},
		spec{area: "Plan", coq: "plan_default_max_segment_size", file: f, kind: "fieldlit", a: "Options", b: "MaxSegmentSize"},
		spec{area: "Plan", coq: "plan_default_tier_growth", file: f, kind: "fieldlit", a: "Options", b: "TierGrowth", typ: "Q"},
		spec{area: "Plan", coq: "plan_default_segments_per_merge_task", file: f, kind: "fieldlit", a: "Options", b: "SegmentsPerMergeTask"},
		spec{area: "Plan", coq: "plan_default_floor_segment_size", file: f, kind: "fieldlit", a: "Options", b: "FloorSegmentSize"},
		spec{area: "Plan", coq: "plan_default_reclaim_deletes_weight", file: f, kind: "fieldlit", a: "Options", b: "ReclaimDeletesWeight", typ: "Q"},
		spec{area: "Plan", coq: "plan_max_segment_size_limit", file: f, kind: "const", a: "MaxSegmentSizeLimit"},
	)
}
