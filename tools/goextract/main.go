// goextract — T-gen translator: re-reads /repo's Go source on every run and
// regenerates coq/Gen/Params.v (constants and literals the proofs depend on).
// Uses go/parser + go/ast only.  Each entry of `specs` names a Coq identifier
// and a locator in the Go source; a locator that no longer resolves is an error
// (exit 2) which the check reports as a broken tie.
package main

import (
	"fmt"
	"go/ast"
	"go/parser"
	"go/token"
	"math/big"
	"os"
	"path/filepath"
	"sort"
	"strconv"
	"strings"
)

type spec struct {
	coq  string // Coq identifier
	file string // path relative to repo root
	kind string // const | var | callarg | fieldlit | openflags
	a    string // const/var name | enclosing func | composite type / func
	b    string // callee (callarg) | field name (fieldlit)
	n    int    // arg index (callarg)
	typ  string // Z | Q | bool
	area string // output file Gen/Params<area>.v
}

// specs is filled by the init() functions of specs_*.go (one file per area).
var specs []spec

// sections: generators of tables that are not single constants (registered by init()).
var sections []func(root string) (area string, text string, errs []string)

type fileInfo struct {
	f      *ast.File
	consts map[string]ast.Expr
	vars   map[string]ast.Expr
}

var fset = token.NewFileSet()
var cache = map[string]*fileInfo{}

func load(root, rel string) (*fileInfo, error) {
	if fi, ok := cache[rel]; ok {
		return fi, nil
	}
	f, err := parser.ParseFile(fset, filepath.Join(root, rel), nil, 0)
	if err != nil {
		return nil, err
	}
	fi := &fileInfo{f: f, consts: map[string]ast.Expr{}, vars: map[string]ast.Expr{}}
	for _, d := range f.Decls {
		gd, ok := d.(*ast.GenDecl)
		if !ok {
			continue
		}
		for _, s := range gd.Specs {
			vs, ok := s.(*ast.ValueSpec)
			if !ok {
				continue
			}
			for i, n := range vs.Names {
				if i < len(vs.Values) {
					if gd.Tok == token.CONST {
						fi.consts[n.Name] = vs.Values[i]
					} else if gd.Tok == token.VAR {
						fi.vars[n.Name] = vs.Values[i]
					}
				}
			}
		}
	}
	cache[rel] = fi
	return fi, nil
}

// eval evaluates a constant integer/rational expression.
func eval(fi *fileInfo, e ast.Expr) (*big.Rat, error) {
	switch x := e.(type) {
	case *ast.BasicLit:
		switch x.Kind {
		case token.INT:
			v, ok := new(big.Int).SetString(strings.ReplaceAll(x.Value, "_", ""), 0)
			if !ok {
				return nil, fmt.Errorf("bad int %s", x.Value)
			}
			return new(big.Rat).SetInt(v), nil
		case token.FLOAT:
			r, ok := new(big.Rat).SetString(x.Value)
			if !ok {
				return nil, fmt.Errorf("bad float %s", x.Value)
			}
			return r, nil
		case token.CHAR:
			c, _, _, err := strconv.UnquoteChar(x.Value[1:len(x.Value)-1], '\'')
			if err != nil {
				return nil, err
			}
			return new(big.Rat).SetInt64(int64(c)), nil
		}
	case *ast.ParenExpr:
		return eval(fi, x.X)
	case *ast.Ident:
		if c, ok := fi.consts[x.Name]; ok {
			return eval(fi, c)
		}
		if x.Name == "true" {
			return big.NewRat(1, 1), nil
		}
		if x.Name == "false" {
			return big.NewRat(0, 1), nil
		}
		return nil, fmt.Errorf("unknown identifier %s", x.Name)
	case *ast.SelectorExpr:
		// well-known std constants
		if id, ok := x.X.(*ast.Ident); ok {
			switch id.Name + "." + x.Sel.Name {
			case "math.MaxInt64":
				return new(big.Rat).SetInt64(9223372036854775807), nil
			case "math.MinInt64":
				return new(big.Rat).SetInt64(-9223372036854775808), nil
			case "os.O_CREATE":
				return big.NewRat(0x40, 1), nil
			case "os.O_RDWR":
				return big.NewRat(0x2, 1), nil
			case "os.O_TRUNC":
				return big.NewRat(0x200, 1), nil
			case "os.O_WRONLY":
				return big.NewRat(0x1, 1), nil
			case "os.O_EXCL":
				return big.NewRat(0x80, 1), nil
			case "os.O_APPEND":
				return big.NewRat(0x400, 1), nil
			case "os.O_RDONLY":
				return big.NewRat(0, 1), nil
			}
		}
		return nil, fmt.Errorf("unknown selector")
	case *ast.CallExpr: // conversions byte(x), uint(x), int64(x), float64(x) ...
		if id, ok := x.Fun.(*ast.Ident); ok && len(x.Args) == 1 {
			switch id.Name {
			case "byte", "uint", "int", "int64", "uint64", "uint32", "int32", "float64", "uint8", "uint16":
				return eval(fi, x.Args[0])
			}
		}
		return nil, fmt.Errorf("unsupported call")
	case *ast.UnaryExpr:
		v, err := eval(fi, x.X)
		if err != nil {
			return nil, err
		}
		if x.Op == token.SUB {
			return new(big.Rat).Neg(v), nil
		}
		if x.Op == token.ADD {
			return v, nil
		}
	case *ast.BinaryExpr:
		l, err := eval(fi, x.X)
		if err != nil {
			return nil, err
		}
		r, err := eval(fi, x.Y)
		if err != nil {
			return nil, err
		}
		switch x.Op {
		case token.ADD:
			return new(big.Rat).Add(l, r), nil
		case token.SUB:
			return new(big.Rat).Sub(l, r), nil
		case token.MUL:
			return new(big.Rat).Mul(l, r), nil
		case token.QUO:
			if r.Sign() == 0 {
				return nil, fmt.Errorf("div by zero")
			}
			if l.IsInt() && r.IsInt() {
				q := new(big.Int).Quo(l.Num(), r.Num())
				return new(big.Rat).SetInt(q), nil
			}
			return new(big.Rat).Quo(l, r), nil
		case token.SHL:
			if l.IsInt() && r.IsInt() {
				return new(big.Rat).SetInt(new(big.Int).Lsh(l.Num(), uint(r.Num().Int64()))), nil
			}
		case token.OR:
			if l.IsInt() && r.IsInt() {
				return new(big.Rat).SetInt(new(big.Int).Or(l.Num(), r.Num())), nil
			}
		case token.AND:
			if l.IsInt() && r.IsInt() {
				return new(big.Rat).SetInt(new(big.Int).And(l.Num(), r.Num())), nil
			}
		}
	}
	return nil, fmt.Errorf("unsupported expression %T", e)
}

func findFunc(fi *fileInfo, name string) *ast.FuncDecl {
	for _, d := range fi.f.Decls {
		if fd, ok := d.(*ast.FuncDecl); ok && fd.Name.Name == name {
			return fd
		}
	}
	return nil
}

func calleeName(c *ast.CallExpr) string {
	switch f := c.Fun.(type) {
	case *ast.Ident:
		return f.Name
	case *ast.SelectorExpr:
		if id, ok := f.X.(*ast.Ident); ok {
			return id.Name + "." + f.Sel.Name
		}
		return f.Sel.Name
	}
	return ""
}

func resolve(root string, s spec) (*big.Rat, error) {
	fi, err := load(root, s.file)
	if err != nil {
		return nil, err
	}
	switch s.kind {
	case "const":
		e, ok := fi.consts[s.a]
		if !ok {
			return nil, fmt.Errorf("const %s not found in %s", s.a, s.file)
		}
		return eval(fi, e)
	case "var":
		e, ok := fi.vars[s.a]
		if !ok {
			return nil, fmt.Errorf("var %s not found in %s", s.a, s.file)
		}
		return eval(fi, e)
	case "callarg":
		fd := findFunc(fi, s.a)
		if fd == nil {
			return nil, fmt.Errorf("func %s not found in %s", s.a, s.file)
		}
		var found []*ast.CallExpr
		ast.Inspect(fd, func(n ast.Node) bool {
			if c, ok := n.(*ast.CallExpr); ok && calleeName(c) == s.b {
				found = append(found, c)
			}
			return true
		})
		if len(found) != 1 {
			return nil, fmt.Errorf("%d calls of %s in %s (want 1)", len(found), s.b, s.a)
		}
		if s.n >= len(found[0].Args) {
			return nil, fmt.Errorf("call of %s has %d args", s.b, len(found[0].Args))
		}
		return eval(fi, found[0].Args[s.n])
	case "fieldlit":
		// first composite literal of type s.a anywhere in the file (or inside var s.a): field s.b
		var val ast.Expr
		ast.Inspect(fi.f, func(n ast.Node) bool {
			if val != nil {
				return false
			}
			cl, ok := n.(*ast.CompositeLit)
			if !ok {
				return true
			}
			tn := ""
			switch t := cl.Type.(type) {
			case *ast.Ident:
				tn = t.Name
			case *ast.SelectorExpr:
				tn = t.Sel.Name
			}
			if tn != s.a {
				return true
			}
			for _, el := range cl.Elts {
				if kv, ok := el.(*ast.KeyValueExpr); ok {
					if id, ok := kv.Key.(*ast.Ident); ok && id.Name == s.b {
						val = kv.Value
						return false
					}
				}
			}
			return true
		})
		if val == nil {
			return nil, fmt.Errorf("field %s of literal %s not found in %s", s.b, s.a, s.file)
		}
		return eval(fi, val)
	}
	return nil, fmt.Errorf("unknown kind %s", s.kind)
}

func coqZ(r *big.Rat) string {
	if r.Num().Sign() < 0 {
		return "(" + r.Num().String() + ")"
	}
	return r.Num().String()
}

func main() {
	if len(os.Args) < 3 {
		fmt.Fprintln(os.Stderr, "usage: goextract <repo> <outdir>")
		os.Exit(2)
	}
	root, out := os.Args[1], os.Args[2]
	bodies := map[string]*strings.Builder{}
	failed := map[string]bool{}
	get := func(area string) *strings.Builder {
		if b, ok := bodies[area]; ok {
			return b
		}
		b := &strings.Builder{}
		b.WriteString("(* GENERATED by tools/goextract from the Go source on every run. Do not edit. *)\n")
		b.WriteString("From Coq Require Import ZArith QArith List.\nImport ListNotations.\nOpen Scope Z_scope.\n\n")
		bodies[area] = b
		return b
	}
	var errs []string
	sort.SliceStable(specs, func(i, j int) bool { return specs[i].coq < specs[j].coq })
	for _, s := range specs {
		sb := get(s.area)
		v, err := resolve(root, s)
		if err != nil {
			errs = append(errs, fmt.Sprintf("[%s] %s: %v", s.area, s.coq, err))
			failed[s.area] = true
			continue
		}
		src := fmt.Sprintf("(* %s: %s %s %s *)", s.file, s.kind, s.a, s.b)
		switch s.typ {
		case "Q":
			fmt.Fprintf(sb, "Definition %s : Q := (%s # %s)%%Q. %s\n", s.coq, coqZ(new(big.Rat).SetInt(v.Num())), v.Denom().String(), src)
		default:
			if !v.IsInt() {
				errs = append(errs, fmt.Sprintf("[%s] %s: non-integer value %s", s.area, s.coq, v.String()))
				failed[s.area] = true
				continue
			}
			fmt.Fprintf(sb, "Definition %s : Z := %s. %s\n", s.coq, coqZ(v), src)
		}
	}
	for _, sec := range sections {
		area, extra, eerrs := sec(root)
		get(area).WriteString(extra)
		for _, e := range eerrs {
			errs = append(errs, fmt.Sprintf("[%s] %s", area, e))
			failed[area] = true
		}
	}
	// an area with an unresolved locator keeps its previous file (so that the proofs of other
	// properties still build); the error is reported and the check of that area fails the tie
	for area, sb := range bodies {
		if failed[area] {
			continue
		}
		target := filepath.Join(out, "Params"+area+".v")
		old, _ := os.ReadFile(target)
		if string(old) != sb.String() {
			if err := os.WriteFile(target, []byte(sb.String()), 0o644); err != nil {
				fmt.Fprintln(os.Stderr, err)
				os.Exit(3)
			}
		}
	}
	sort.Strings(errs)
	if len(errs) > 0 {
		for _, e := range errs {
			fmt.Fprintln(os.Stderr, "goextract: "+e)
		}
		os.Exit(2)
	}
}
