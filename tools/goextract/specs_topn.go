package main

import (
	"fmt"
	"go/ast"
	"go/token"
	"strconv"
	"strings"
)

// top-N collector / sort order (C09)
func init() {
	specs = append(specs,
		spec{area: "TopN", coq: "switch_from_slice_to_heap", file: "search/collector/topn.go", kind: "const", a: "switchFromSliceToHeap"},
		spec{area: "TopN", coq: "prealloc_size_skip_cap", file: "search/collector/topn.go", kind: "var", a: "PreAllocSizeSkipCap"},
		spec{area: "TopN", coq: "check_done_every", file: "search/collector/topn.go", kind: "const", a: "CheckDoneEvery"},
	)
	sections = append(sections, topnByteLiterals)
}

// evalBytes evaluates a constant []byte expression: []byte{..}, []byte("…"), bytes.Repeat(x, n).
func evalBytes(fi *fileInfo, e ast.Expr) ([]byte, error) {
	switch x := e.(type) {
	case *ast.ParenExpr:
		return evalBytes(fi, x.X)
	case *ast.CompositeLit:
		at, ok := x.Type.(*ast.ArrayType)
		if !ok {
			return nil, fmt.Errorf("composite literal is not a slice")
		}
		if id, ok := at.Elt.(*ast.Ident); !ok || (id.Name != "byte" && id.Name != "uint8") {
			return nil, fmt.Errorf("composite literal is not []byte")
		}
		var out []byte
		for _, el := range x.Elts {
			if _, isKV := el.(*ast.KeyValueExpr); isKV {
				return nil, fmt.Errorf("keyed []byte literal unsupported")
			}
			v, err := eval(fi, el)
			if err != nil {
				return nil, err
			}
			if !v.IsInt() || v.Num().Sign() < 0 || v.Num().Int64() > 255 {
				return nil, fmt.Errorf("byte out of range")
			}
			out = append(out, byte(v.Num().Int64()))
		}
		if out == nil {
			out = []byte{}
		}
		return out, nil
	case *ast.CallExpr:
		if calleeName(x) == "bytes.Repeat" && len(x.Args) == 2 {
			b, err := evalBytes(fi, x.Args[0])
			if err != nil {
				return nil, err
			}
			n, err := eval(fi, x.Args[1])
			if err != nil {
				return nil, err
			}
			if !n.IsInt() || n.Num().Sign() < 0 || n.Num().Int64() > 4096 {
				return nil, fmt.Errorf("bad repeat count")
			}
			out := []byte{}
			for i := int64(0); i < n.Num().Int64(); i++ {
				out = append(out, b...)
			}
			return out, nil
		}
		// conversion []byte("literal")
		if at, ok := x.Fun.(*ast.ArrayType); ok && len(x.Args) == 1 {
			if id, ok := at.Elt.(*ast.Ident); ok && id.Name == "byte" {
				if bl, ok := x.Args[0].(*ast.BasicLit); ok && bl.Kind == token.STRING {
					s, err := strconv.Unquote(bl.Value)
					if err != nil {
						return nil, err
					}
					return []byte(s), nil
				}
			}
		}
	case *ast.Ident:
		if v, ok := fi.vars[x.Name]; ok {
			return evalBytes(fi, v)
		}
	}
	return nil, fmt.Errorf("unsupported []byte expression %T", e)
}

func coqByteList(b []byte) string {
	it := make([]string, len(b))
	for i, c := range b {
		it[i] = strconv.Itoa(int(c))
	}
	return "[" + strings.Join(it, "; ") + "]"
}

// lowTerm / highTerm of search/sort.go: the sentinel sort keys substituted for a missing value.
func topnByteLiterals(root string) (string, string, []string) {
	var sb strings.Builder
	var errs []string
	fi, err := load(root, "search/sort.go")
	if err != nil {
		return "TopN", "", []string{err.Error()}
	}
	for _, it := range []struct{ coq, goName string }{{"low_term", "lowTerm"}, {"high_term", "highTerm"}} {
		e, ok := fi.vars[it.goName]
		if !ok {
			errs = append(errs, fmt.Sprintf("%s: var %s not found in search/sort.go", it.coq, it.goName))
			continue
		}
		b, err := evalBytes(fi, e)
		if err != nil {
			errs = append(errs, fmt.Sprintf("%s: %v", it.coq, err))
			continue
		}
		fmt.Fprintf(&sb, "Definition %s : list Z := %s. (* search/sort.go: var %s *)\n", it.coq, coqByteList(b), it.goName)
	}
	return "TopN", sb.String(), errs
}
