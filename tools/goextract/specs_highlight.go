package main

import (
	"fmt"
	"go/ast"
	"go/token"
	"strconv"
	"strings"
)

// highlighter (C20): the numeric default fragment size and the string constants that the
// formatters write around matches (emitted as byte lists).
func init() {
	specs = append(specs,
		spec{area: "Highlight", coq: "default_fragment_size", file: "search/highlight/fragment_simple.go", kind: "const", a: "defaultFragmentSize"},
	)
	sections = append(sections, highlightStrings)
}

type strSpec struct {
	coq  string
	file string
	name string
}

// evalString resolves a string constant expression: a literal, or an identifier naming
// another string constant of one of the given files.
func evalString(fis []*fileInfo, e ast.Expr, depth int) (string, error) {
	if depth > 8 {
		return "", fmt.Errorf("constant chain too deep")
	}
	switch x := e.(type) {
	case *ast.BasicLit:
		if x.Kind == token.STRING {
			return strconv.Unquote(x.Value)
		}
	case *ast.ParenExpr:
		return evalString(fis, x.X, depth+1)
	case *ast.Ident:
		for _, fi := range fis {
			if c, ok := fi.consts[x.Name]; ok {
				return evalString(fis, c, depth+1)
			}
		}
		return "", fmt.Errorf("unknown string constant %s", x.Name)
	case *ast.BinaryExpr:
		if x.Op == token.ADD {
			l, err := evalString(fis, x.X, depth+1)
			if err != nil {
				return "", err
			}
			r, err := evalString(fis, x.Y, depth+1)
			if err != nil {
				return "", err
			}
			return l + r, nil
		}
	}
	return "", fmt.Errorf("unsupported string expression %T", e)
}

func highlightStrings(root string) (string, string, []string) {
	files := []string{
		"search/highlight/format_html.go",
		"search/highlight/format_ansi.go",
		"search/highlight/highlighter_simple.go",
	}
	var fis []*fileInfo
	var errs []string
	for _, f := range files {
		fi, err := load(root, f)
		if err != nil {
			errs = append(errs, err.Error())
			continue
		}
		fis = append(fis, fi)
	}
	if len(errs) > 0 {
		return "Highlight", "", errs
	}
	want := []strSpec{
		{"html_before", "search/highlight/format_html.go", "defaultHTMLHighlightBefore"},
		{"html_after", "search/highlight/format_html.go", "defaultHTMLHighlightAfter"},
		{"ansi_default_color", "search/highlight/format_ansi.go", "defaultAnsiHighlight"},
		{"ansi_reset", "search/highlight/format_ansi.go", "Reset"},
		{"default_separator", "search/highlight/highlighter_simple.go", "DefaultSeparator"},
	}
	var sb strings.Builder
	for _, w := range want {
		fi, _ := load(root, w.file)
		e, ok := fi.consts[w.name]
		if !ok {
			errs = append(errs, fmt.Sprintf("%s: const %s not found in %s", w.coq, w.name, w.file))
			continue
		}
		s, err := evalString(fis, e, 0)
		if err != nil {
			errs = append(errs, fmt.Sprintf("%s: %v", w.coq, err))
			continue
		}
		parts := make([]string, len(s))
		for i := 0; i < len(s); i++ {
			parts[i] = strconv.Itoa(int(s[i]))
		}
		fmt.Fprintf(&sb, "Definition %s : list Z := [%s]. (* %s: const %s, hex %x *)\n", w.coq, strings.Join(parts, "; "), w.file, w.name, s)
	}
	return "Highlight", sb.String(), errs
}
