module verif/goextract

go 1.21
