package main

import (
	"fmt"
	"go/ast"
	"go/token"
	"strings"
)

// analysis pipeline (C18): literals the Coq model of analysis/* depends on
func init() {
	specs = append(specs,
		// field.go newTextField: positionIncrementGap of text fields (Document.Analyze bookkeeping)
		spec{area: "Analysis", coq: "text_position_gap", file: "field.go", kind: "fieldlit", a: "TermField", b: "positionIncrementGap"},
		// analysis/token/elision.go: the two apostrophe runes (also used by apostrophe.go)
		spec{area: "Analysis", coq: "rune_apostrophe", file: "analysis/token/elision.go", kind: "const", a: "Apostrophe"},
		spec{area: "Analysis", coq: "rune_right_single_quote", file: "analysis/token/elision.go", kind: "const", a: "RightSingleQuotationMark"},
		// tokenizers: increment written into every token
		spec{area: "Analysis", coq: "char_tok_incr", file: "analysis/tokenizer/character.go", kind: "fieldlit", a: "Token", b: "PositionIncr"},
		spec{area: "Analysis", coq: "single_tok_incr", file: "analysis/tokenizer/single.go", kind: "fieldlit", a: "Token", b: "PositionIncr"},
		spec{area: "Analysis", coq: "single_tok_start", file: "analysis/tokenizer/single.go", kind: "fieldlit", a: "Token", b: "Start"},
		// n-gram filters: increment of the token literal (the first n-gram of a token is then set to 1)
		spec{area: "Analysis", coq: "ngram_lit_incr", file: "analysis/token/ngram.go", kind: "fieldlit", a: "Token", b: "PositionIncr"},
		spec{area: "Analysis", coq: "edgengram_lit_incr", file: "analysis/token/edgengram.go", kind: "fieldlit", a: "Token", b: "PositionIncr"},
		// shingle filter: the filler token literal
		spec{area: "Analysis", coq: "shingle_filler_start", file: "analysis/token/shingle.go", kind: "fieldlit", a: "Token", b: "Start"},
		spec{area: "Analysis", coq: "shingle_filler_end", file: "analysis/token/shingle.go", kind: "fieldlit", a: "Token", b: "End"},
		spec{area: "Analysis", coq: "shingle_filler_incr", file: "analysis/token/shingle.go", kind: "fieldlit", a: "Token", b: "PositionIncr"},
	)
	specs = append(specs,
		// analysis/lang/en/possessive_filter_en.go: the three apostrophes
		spec{area: "Analysis", coq: "en_right_single_quote", file: "analysis/lang/en/possessive_filter_en.go", kind: "const", a: "rightSingleQuotationMark"},
		spec{area: "Analysis", coq: "en_apostrophe", file: "analysis/lang/en/possessive_filter_en.go", kind: "const", a: "apostrophe"},
		spec{area: "Analysis", coq: "en_fullwidth_apostrophe", file: "analysis/lang/en/possessive_filter_en.go", kind: "const", a: "fullWidthApostrophe"},
		// analysis/token/dict.go, camelcase_parser.go, cjk_bigram.go: increments of the emitted tokens
		spec{area: "Analysis", coq: "dict_sub_incr", file: "analysis/token/dict.go", kind: "fieldlit", a: "Token", b: "PositionIncr"},
		spec{area: "Analysis", coq: "camel_tok_incr", file: "analysis/token/camelcase_parser.go", kind: "fieldlit", a: "Token", b: "PositionIncr"},
		// analysis/char/asciifolding.go: capacity factor of the output buffer
		spec{area: "Analysis", coq: "ascii_fold_max_expansion", file: "analysis/char/asciifolding.go", kind: "const", a: "maxRuneExpansion"},
		spec{area: "Analysis", coq: "bigram_piece_incr", file: "analysis/lang/cjk/cjk_bigram.go", kind: "fieldlit", a: "Token", b: "PositionIncr"},
	)
	sections = append(sections, analysisTokenTypes, analysisKanaTables, analysisASCIIFoldTable)
}

// analysisTokenTypes evaluates the iota enumeration of analysis.TokenType (analysis/type.go).
func analysisTokenTypes(root string) (string, string, []string) {
	const area = "Analysis"
	fi, err := load(root, "analysis/type.go")
	if err != nil {
		return area, "", []string{err.Error()}
	}
	want := map[string]string{
		"AlphaNumeric": "tt_alphanumeric", "Ideographic": "tt_ideographic", "Numeric": "tt_numeric",
		"DateTime": "tt_datetime", "Shingle": "tt_shingle", "Single": "tt_single", "Double": "tt_double",
		"Boolean": "tt_boolean",
	}
	found := map[string]int{}
	for _, d := range fi.f.Decls {
		gd, ok := d.(*ast.GenDecl)
		if !ok || gd.Tok != token.CONST || len(gd.Specs) == 0 {
			continue
		}
		first, ok := gd.Specs[0].(*ast.ValueSpec)
		if !ok || first.Type == nil {
			continue
		}
		tid, ok := first.Type.(*ast.Ident)
		if !ok || tid.Name != "TokenType" {
			continue
		}
		if len(first.Values) != 1 {
			continue
		}
		if id, ok := first.Values[0].(*ast.Ident); !ok || id.Name != "iota" {
			return area, "", []string{"token types: first TokenType constant is not `iota`"}
		}
		for i, s := range gd.Specs {
			vs := s.(*ast.ValueSpec)
			if i > 0 && (len(vs.Values) != 0 || vs.Type != nil) {
				return area, "", []string{fmt.Sprintf("token types: constant %s breaks the iota run", vs.Names[0].Name)}
			}
			if len(vs.Names) != 1 {
				return area, "", []string{"token types: several names in one spec"}
			}
			found[vs.Names[0].Name] = i
		}
	}
	var sb strings.Builder
	var errs []string
	names := []string{"AlphaNumeric", "Ideographic", "Numeric", "DateTime", "Shingle", "Single", "Double", "Boolean"}
	for _, n := range names {
		v, ok := found[n]
		if !ok {
			errs = append(errs, fmt.Sprintf("%s: TokenType constant %s not found in analysis/type.go", want[n], n))
			continue
		}
		fmt.Fprintf(&sb, "Definition %s : Z := %d. (* analysis/type.go: TokenType %s *)\n", want[n], v, n)
	}
	return area, sb.String(), errs
}

// analysisKanaTables emits the rune tables of analysis/lang/cjk/cjk_width.go as Coq lists.
func analysisKanaTables(root string) (string, string, []string) {
	const area = "Analysis"
	fi, err := load(root, "analysis/lang/cjk/cjk_width.go")
	if err != nil {
		return area, "", []string{err.Error()}
	}
	var sb strings.Builder
	var errs []string
	for _, it := range []struct{ coq, goName string }{{"cjk_kana_norm", "kanaNorm"}, {"cjk_combine_voiced", "kanaCombineVoiced"}, {"cjk_combine_half_voiced", "kanaCombineHalfVoiced"}} {
		e, ok := fi.vars[it.goName]
		if !ok {
			errs = append(errs, fmt.Sprintf("%s: var %s not found in analysis/lang/cjk/cjk_width.go", it.coq, it.goName))
			continue
		}
		cl, ok := e.(*ast.CompositeLit)
		if !ok {
			errs = append(errs, fmt.Sprintf("%s: var %s is not a composite literal", it.coq, it.goName))
			continue
		}
		vals := make([]string, 0, len(cl.Elts))
		bad := false
		for _, el := range cl.Elts {
			v, err := eval(fi, el)
			if err != nil || !v.IsInt() {
				errs = append(errs, fmt.Sprintf("%s: element of %s is not an integer constant", it.coq, it.goName))
				bad = true
				break
			}
			vals = append(vals, coqZ(v))
		}
		if bad {
			continue
		}
		fmt.Fprintf(&sb, "Definition %s : list Z := [%s]. (* analysis/lang/cjk/cjk_width.go: var %s *)\n", it.coq, strings.Join(vals, "; "), it.goName)
	}
	return area, sb.String(), errs
}

// analysisASCIIFoldTable walks the switch of foldToASCII (analysis/char/asciifolding.go) and emits,
// for every case value, the amount the output slice is extended by and the runes written:
// ascii_fold_table : list (Z * (Z * list Z)).  `fallthrough` clauses share the next body.
func analysisASCIIFoldTable(root string) (string, string, []string) {
	const area = "Analysis"
	const rel = "analysis/char/asciifolding.go"
	fi, err := load(root, rel)
	if err != nil {
		return area, "", []string{err.Error()}
	}
	fd := findFunc(fi, "foldToASCII")
	if fd == nil {
		return area, "", []string{"ascii_fold_table: func foldToASCII not found"}
	}
	var sw *ast.SwitchStmt
	ast.Inspect(fd, func(n ast.Node) bool {
		if s, ok := n.(*ast.SwitchStmt); ok && sw == nil {
			sw = s
		}
		return true
	})
	if sw == nil {
		return area, "", []string{"ascii_fold_table: no switch in foldToASCII"}
	}
	type entry struct {
		runes  []string
		extend string
		writes []string
	}
	var entries []entry
	var pending []string // case values of fallthrough clauses waiting for a body
	var errs []string
	sawDefault := false
	for _, st := range sw.Body.List {
		cc, ok := st.(*ast.CaseClause)
		if !ok {
			continue
		}
		if cc.List == nil { // default: output[outputPos] = c
			sawDefault = true
			if len(cc.Body) != 2 {
				errs = append(errs, "ascii_fold_table: default clause is not `output[outputPos] = c; outputPos++`")
			}
			continue
		}
		for _, e := range cc.List {
			v, err := eval(fi, e)
			if err != nil || !v.IsInt() {
				errs = append(errs, "ascii_fold_table: a case value is not a rune constant")
				continue
			}
			pending = append(pending, coqZ(v))
		}
		if len(cc.Body) == 1 {
			if b, ok := cc.Body[0].(*ast.BranchStmt); ok && b.Tok == token.FALLTHROUGH {
				continue
			}
		}
		en := entry{runes: pending, extend: "0"}
		pending = nil
		for _, bs := range cc.Body {
			switch x := bs.(type) {
			case *ast.AssignStmt:
				if len(x.Lhs) != 1 || len(x.Rhs) != 1 {
					errs = append(errs, "ascii_fold_table: unexpected assignment shape")
					continue
				}
				switch l := x.Lhs[0].(type) {
				case *ast.Ident: // output = output[:(len(output) + K)]
					se, ok := x.Rhs[0].(*ast.SliceExpr)
					if l.Name != "output" || !ok || se.High == nil {
						errs = append(errs, "ascii_fold_table: unexpected statement in a case body")
						continue
					}
					hi := se.High
					if p, ok := hi.(*ast.ParenExpr); ok {
						hi = p.X
					}
					be, ok := hi.(*ast.BinaryExpr)
					if !ok || be.Op != token.ADD {
						errs = append(errs, "ascii_fold_table: extension is not len(output)+K")
						continue
					}
					k, err := eval(fi, be.Y)
					if err != nil || !k.IsInt() {
						errs = append(errs, "ascii_fold_table: extension amount is not a constant")
						continue
					}
					en.extend = coqZ(k)
				case *ast.IndexExpr: // output[outputPos] = 'X'
					v, err := eval(fi, x.Rhs[0])
					if err != nil || !v.IsInt() {
						errs = append(errs, "ascii_fold_table: a written value is not a rune constant")
						continue
					}
					en.writes = append(en.writes, coqZ(v))
				default:
					errs = append(errs, "ascii_fold_table: unexpected assignment target")
				}
			case *ast.IncDecStmt: // outputPos++
			default:
				errs = append(errs, fmt.Sprintf("ascii_fold_table: unexpected statement %T in a case body", bs))
			}
		}
		entries = append(entries, en)
	}
	if len(pending) != 0 {
		errs = append(errs, "ascii_fold_table: trailing fallthrough clauses without a body")
	}
	if !sawDefault {
		errs = append(errs, "ascii_fold_table: no default clause")
	}
	var sb strings.Builder
	sb.WriteString("(* analysis/char/asciifolding.go: the switch of foldToASCII: rune -> (extension of the output slice, runes written) *)\n")
	sb.WriteString("Definition ascii_fold_table : list (Z * (Z * list Z)) := [\n")
	first := true
	n := 0
	for _, en := range entries {
		for _, r := range en.runes {
			if !first {
				sb.WriteString(";\n")
			}
			first = false
			fmt.Fprintf(&sb, " (%s, (%s, [%s]))", r, en.extend, strings.Join(en.writes, "; "))
			n++
		}
	}
	sb.WriteString("].\n")
	if n < 100 {
		errs = append(errs, fmt.Sprintf("ascii_fold_table: only %d case values found", n))
	}
	return area, sb.String(), errs
}
