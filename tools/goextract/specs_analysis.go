package main

import (
	"fmt"
	"go/ast"
	"go/token"
	"strings"
)

// analysis pipeline (C18): literals the Coq model of analysis/* depends on
func init() {
	specs = append(specs,
		// field.go newTextField: positionIncrementGap of text fields (Document.Analyze bookkeeping)
		spec{area: "Analysis", coq: "text_position_gap", file: "field.go", kind: "fieldlit", a: "TermField", b: "positionIncrementGap"},
		// analysis/token/elision.go: the two apostrophe runes (also used by apostrophe.go)
		spec{area: "Analysis", coq: "rune_apostrophe", file: "analysis/token/elision.go", kind: "const", a: "Apostrophe"},
		spec{area: "Analysis", coq: "rune_right_single_quote", file: "analysis/token/elision.go", kind: "const", a: "RightSingleQuotationMark"},
		// tokenizers: increment written into every token
		spec{area: "Analysis", coq: "char_tok_incr", file: "analysis/tokenizer/character.go", kind: "fieldlit", a: "Token", b: "PositionIncr"},
		spec{area: "Analysis", coq: "single_tok_incr", file: "analysis/tokenizer/single.go", kind: "fieldlit", a: "Token", b: "PositionIncr"},
		spec{area: "Analysis", coq: "single_tok_start", file: "analysis/tokenizer/single.go", kind: "fieldlit", a: "Token", b: "Start"},
		// n-gram filters: increment of the token literal (the first n-gram of a token is then set to 1)
		spec{area: "Analysis", coq: "ngram_lit_incr", file: "analysis/token/ngram.go", kind: "fieldlit", a: "Token", b: "PositionIncr"},
		spec{area: "Analysis", coq: "edgengram_lit_incr", file: "analysis/token/edgengram.go", kind: "fieldlit", a: "Token", b: "PositionIncr"},
		// shingle filter: the filler token literal
		spec{area: "Analysis", coq: "shingle_filler_start", file: "analysis/token/shingle.go", kind: "fieldlit", a: "Token", b: "Start"},
		spec{area: "Analysis", coq: "shingle_filler_end", file: "analysis/token/shingle.go", kind: "fieldlit", a: "Token", b: "End"},
		spec{area: "Analysis", coq: "shingle_filler_incr", file: "analysis/token/shingle.go", kind: "fieldlit", a: "Token", b: "PositionIncr"},
	)
	specs = append(specs,
		// analysis/lang/en/possessive_filter_en.go: the three apostrophes
		spec{area: "Analysis", coq: "en_right_single_quote", file: "analysis/lang/en/possessive_filter_en.go", kind: "const", a: "rightSingleQuotationMark"},
		spec{area: "Analysis", coq: "en_apostrophe", file: "analysis/lang/en/possessive_filter_en.go", kind: "const", a: "apostrophe"},
		spec{area: "Analysis", coq: "en_fullwidth_apostrophe", file: "analysis/lang/en/possessive_filter_en.go", kind: "const", a: "fullWidthApostrophe"},
		// analysis/token/dict.go, camelcase_parser.go, cjk_bigram.go: increments of the emitted tokens
		spec{area: "Analysis", coq: "dict_sub_incr", file: "analysis/token/dict.go", kind: "fieldlit", a: "Token", b: "PositionIncr"},
		spec{area: "Analysis", coq: "camel_tok_incr", file: "analysis/token/camelcase_parser.go", kind: "fieldlit", a: "Token", b: "PositionIncr"},
		spec{area: "Analysis", coq: "bigram_piece_incr", file: "analysis/lang/cjk/cjk_bigram.go", kind: "fieldlit", a: "Token", b: "PositionIncr"},
	)
	sections = append(sections, analysisTokenTypes, analysisKanaTables)
}

// analysisTokenTypes evaluates the iota enumeration of analysis.TokenType (analysis/type.go).
func analysisTokenTypes(root string) (string, string, []string) {
	const area = "Analysis"
	fi, err := load(root, "analysis/type.go")
	if err != nil {
		return area, "", []string{err.Error()}
	}
	want := map[string]string{
		"AlphaNumeric": "tt_alphanumeric", "Ideographic": "tt_ideographic", "Numeric": "tt_numeric",
		"DateTime": "tt_datetime", "Shingle": "tt_shingle", "Single": "tt_single", "Double": "tt_double",
		"Boolean": "tt_boolean",
	}
	found := map[string]int{}
	for _, d := range fi.f.Decls {
		gd, ok := d.(*ast.GenDecl)
		if !ok || gd.Tok != token.CONST || len(gd.Specs) == 0 {
			continue
		}
		first, ok := gd.Specs[0].(*ast.ValueSpec)
		if !ok || first.Type == nil {
			continue
		}
		tid, ok := first.Type.(*ast.Ident)
		if !ok || tid.Name != "TokenType" {
			continue
		}
		if len(first.Values) != 1 {
			continue
		}
		if id, ok := first.Values[0].(*ast.Ident); !ok || id.Name != "iota" {
			return area, "", []string{"token types: first TokenType constant is not `iota`"}
		}
		for i, s := range gd.Specs {
			vs := s.(*ast.ValueSpec)
			if i > 0 && (len(vs.Values) != 0 || vs.Type != nil) {
				return area, "", []string{fmt.Sprintf("token types: constant %s breaks the iota run", vs.Names[0].Name)}
			}
			if len(vs.Names) != 1 {
				return area, "", []string{"token types: several names in one spec"}
			}
			found[vs.Names[0].Name] = i
		}
	}
	var sb strings.Builder
	var errs []string
	names := []string{"AlphaNumeric", "Ideographic", "Numeric", "DateTime", "Shingle", "Single", "Double", "Boolean"}
	for _, n := range names {
		v, ok := found[n]
		if !ok {
			errs = append(errs, fmt.Sprintf("%s: TokenType constant %s not found in analysis/type.go", want[n], n))
			continue
		}
		fmt.Fprintf(&sb, "Definition %s : Z := %d. (* analysis/type.go: TokenType %s *)\n", want[n], v, n)
	}
	return area, sb.String(), errs
}

// analysisKanaTables emits the rune tables of analysis/lang/cjk/cjk_width.go as Coq lists.
func analysisKanaTables(root string) (string, string, []string) {
	const area = "Analysis"
	fi, err := load(root, "analysis/lang/cjk/cjk_width.go")
	if err != nil {
		return area, "", []string{err.Error()}
	}
	var sb strings.Builder
	var errs []string
	for _, it := range []struct{ coq, goName string }{{"cjk_kana_norm", "kanaNorm"}, {"cjk_combine_voiced", "kanaCombineVoiced"}, {"cjk_combine_half_voiced", "kanaCombineHalfVoiced"}} {
		e, ok := fi.vars[it.goName]
		if !ok {
			errs = append(errs, fmt.Sprintf("%s: var %s not found in analysis/lang/cjk/cjk_width.go", it.coq, it.goName))
			continue
		}
		cl, ok := e.(*ast.CompositeLit)
		if !ok {
			errs = append(errs, fmt.Sprintf("%s: var %s is not a composite literal", it.coq, it.goName))
			continue
		}
		vals := make([]string, 0, len(cl.Elts))
		bad := false
		for _, el := range cl.Elts {
			v, err := eval(fi, el)
			if err != nil || !v.IsInt() {
				errs = append(errs, fmt.Sprintf("%s: element of %s is not an integer constant", it.coq, it.goName))
				bad = true
				break
			}
			vals = append(vals, coqZ(v))
		}
		if bad {
			continue
		}
		fmt.Fprintf(&sb, "Definition %s : list Z := [%s]. (* analysis/lang/cjk/cjk_width.go: var %s *)\n", it.coq, strings.Join(vals, "; "), it.goName)
	}
	return area, sb.String(), errs
}
