package main

// BM25 similarity / explanations (C17).
//
// Constants: defaultB, defaultK1, noBoost (typ Q).
// Section: for each scoring function the numeric literals of its body in source order
// (`<fn>_literals : list Q`), and for each function building explanations the message
// string literals handed to search.NewExplanation in source order (`msg_<fn> : list string`;
// the format string when the message is a fmt.Sprintf call).  The models in
// coq/Search/BM25R.v, BM25F.v, Explain.v are written over these names, so a changed
// literal or message text re-checks the theorems of Props/C17.v.

import (
	"fmt"
	"go/ast"
	"go/token"
	"math/big"
	"strconv"
	"strings"
)

func init() {
	specs = append(specs,
		spec{area: "BM25", coq: "bm25_default_b", file: "search/similarity/bm25.go", kind: "const", a: "defaultB", typ: "Q"},
		spec{area: "BM25", coq: "bm25_default_k1", file: "search/similarity/bm25.go", kind: "const", a: "defaultK1", typ: "Q"},
		spec{area: "BM25", coq: "bm25_no_boost", file: "search/similarity/bm25.go", kind: "const", a: "noBoost", typ: "Q"},
		spec{area: "BM25", coq: "composite_default_boost", file: "search/similarity/composite.go", kind: "fieldlit", a: "CompositeSumScorer", b: "boost", typ: "Q"},
	)
	sections = append(sections, bm25Section)
}

type bm25Fn struct {
	file, recv, name, coq string
	literals, messages  bool
}

var bm25Fns = []bm25Fn{
	{"search/similarity/bm25.go", "BM25Similarity", "Idf", "idf", true, false},
	{"search/similarity/bm25.go", "BM25Similarity", "IdfExplainTerm", "idf_explain", false, true},
	{"search/similarity/bm25.go", "BM25Scorer", "Score", "score", true, false},
	{"search/similarity/bm25.go", "BM25Scorer", "explainTf", "explain_tf", true, true},
	{"search/similarity/bm25.go", "BM25Scorer", "Explain", "explain", true, true},
	{"search/similarity/composite.go", "CompositeSumScorer", "ExplainComposite", "explain_composite", true, true},
	{"search/similarity/constant.go", "ConstantScorer", "Explain", "explain_constant", false, true},
	{"search/similarity/constant.go", "ConstantScorer", "ExplainComposite", "explain_constant_composite", false, true},
}

func recvName(fd *ast.FuncDecl) string {
	if fd.Recv == nil || len(fd.Recv.List) == 0 {
		return ""
	}
	t := fd.Recv.List[0].Type
	if st, ok := t.(*ast.StarExpr); ok {
		t = st.X
	}
	if id, ok := t.(*ast.Ident); ok {
		return id.Name
	}
	return ""
}

func coqString(s string) string {
	return "\"" + strings.ReplaceAll(s, "\"", "\"\"") + "\"%string"
}

func bm25Section(root string) (string, string, []string) {
	var sb strings.Builder
	var errs []string
	sb.WriteString("\nFrom Coq Require Import String.\n")
	for _, fn := range bm25Fns {
		fi, err := load(root, fn.file)
		if err != nil {
			errs = append(errs, fmt.Sprintf("%s: %v", fn.coq, err))
			continue
		}
		var fd *ast.FuncDecl
		for _, d := range fi.f.Decls {
			if f, ok := d.(*ast.FuncDecl); ok && f.Name.Name == fn.name && recvName(f) == fn.recv {
				fd = f
			}
		}
		if fd == nil || fd.Body == nil {
			errs = append(errs, fmt.Sprintf("%s: method %s.%s not found in %s", fn.coq, fn.recv, fn.name, fn.file))
			continue
		}
		if fn.literals {
			var lits []string
			bad := false
			ast.Inspect(fd.Body, func(n ast.Node) bool {
				bl, ok := n.(*ast.BasicLit)
				if !ok || (bl.Kind != token.INT && bl.Kind != token.FLOAT) {
					return true
				}
				r, ok := new(big.Rat).SetString(strings.ReplaceAll(bl.Value, "_", ""))
				if !ok {
					bad = true
					return true
				}
				lits = append(lits, fmt.Sprintf("(%s # %s)%%Q", coqZ(new(big.Rat).SetInt(r.Num())), r.Denom().String()))
				return true
			})
			if bad {
				errs = append(errs, fmt.Sprintf("%s: unreadable numeric literal", fn.coq))
				continue
			}
			fmt.Fprintf(&sb, "Definition %s_literals : list Q := [%s]. (* %s: numeric literals of %s.%s in source order *)\n",
				fn.coq, strings.Join(lits, "; "), fn.file, fn.recv, fn.name)
		}
		if fn.messages {
			var msgs []string
			bad := ""
			ast.Inspect(fd.Body, func(n ast.Node) bool {
				c, ok := n.(*ast.CallExpr)
				if !ok || calleeName(c) != "search.NewExplanation" {
					return true
				}
				if len(c.Args) < 2 {
					bad = "NewExplanation call with fewer than 2 arguments"
					return true
				}
				arg := c.Args[1]
				if inner, ok := arg.(*ast.CallExpr); ok && calleeName(inner) == "fmt.Sprintf" && len(inner.Args) > 0 {
					arg = inner.Args[0]
				}
				bl, ok := arg.(*ast.BasicLit)
				if !ok || bl.Kind != token.STRING {
					bad = "NewExplanation message is not a string literal"
					return true
				}
				s, err := strconv.Unquote(bl.Value)
				if err != nil {
					bad = err.Error()
					return true
				}
				msgs = append(msgs, coqString(s))
				return true
			})
			if bad != "" {
				errs = append(errs, fmt.Sprintf("%s: %s", fn.coq, bad))
				continue
			}
			fmt.Fprintf(&sb, "Definition msg_%s : list string := [%s]. (* %s: messages of the NewExplanation calls of %s.%s in source order *)\n",
				fn.coq, strings.Join(msgs, "; "), fn.file, fn.recv, fn.name)
		}
	}
	return "BM25", sb.String(), errs
}
