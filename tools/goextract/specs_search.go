package main

import (
	"fmt"
	"go/ast"
	"strings"
)

// searchers (C07, C08)
func init() {
	specs = append(specs,
		spec{area: "Search", coq: "disjunction_heap_takeover", file: "search/searcher/search_disjunction.go", kind: "var", a: "DisjunctionHeapTakeover"},
		spec{area: "Search", coq: "disjunction_max_clause_count", file: "search/searcher/search_disjunction.go", kind: "var", a: "DisjunctionMaxClauseCount"},
		spec{area: "Search", coq: "max_fuzziness", file: "search/searcher/search_fuzzy.go", kind: "var", a: "MaxFuzziness"},
		spec{area: "Search", coq: "multi_term_disjunction_min", file: "search/searcher/search_multi_term.go", kind: "callarg", a: "newMultiTermSearcherInternal", b: "newDisjunctionSearcher", n: 2},
		spec{area: "Search", coq: "phrase_position_disjunction_min", file: "search/searcher/search_phrase.go", kind: "callarg", a: "NewSloppyMultiPhraseSearcher", b: "NewDisjunctionSearcher", n: 2},
	)
	sections = append(sections, searchSection)
}

// searchSelectorChain renders a.b.c for nested selector expressions over identifiers.
func searchSelectorChain(e ast.Expr) string {
	switch x := e.(type) {
	case *ast.Ident:
		return x.Name
	case *ast.SelectorExpr:
		p := searchSelectorChain(x.X)
		if p == "" {
			return ""
		}
		return p + "." + x.Sel.Name
	}
	return ""
}

func searchRecvName(fd *ast.FuncDecl) string {
	if fd.Recv == nil || len(fd.Recv.List) == 0 {
		return ""
	}
	t := fd.Recv.List[0].Type
	if s, ok := t.(*ast.StarExpr); ok {
		t = s.X
	}
	if id, ok := t.(*ast.Ident); ok {
		return id.Name
	}
	return ""
}

// searchMethodCallArg: in method recv.name of file rel, the n-th argument of the single call whose
// callee renders as chain.
func searchMethodCallArg(root, rel, recv, name, chain string, n int) (string, error) {
	fi, err := load(root, rel)
	if err != nil {
		return "", err
	}
	for _, d := range fi.f.Decls {
		fd, ok := d.(*ast.FuncDecl)
		if !ok || fd.Name.Name != name || searchRecvName(fd) != recv {
			continue
		}
		var found []*ast.CallExpr
		ast.Inspect(fd, func(nd ast.Node) bool {
			if c, ok := nd.(*ast.CallExpr); ok && searchSelectorChain(c.Fun) == chain {
				found = append(found, c)
			}
			return true
		})
		if len(found) != 1 {
			return "", fmt.Errorf("%d calls of %s in %s.%s (want 1)", len(found), chain, recv, name)
		}
		if n >= len(found[0].Args) {
			return "", fmt.Errorf("call of %s has %d args", chain, len(found[0].Args))
		}
		v, err := eval(fi, found[0].Args[n])
		if err != nil {
			return "", err
		}
		if !v.IsInt() {
			return "", fmt.Errorf("non-integer")
		}
		return coqZ(v), nil
	}
	return "", fmt.Errorf("method %s.%s not found in %s", recv, name, rel)
}

func searchSection(root string) (string, string, []string) {
	var sb strings.Builder
	var errs []string
	add := func(coq, rel, recv, name, chain string, n int) {
		v, err := searchMethodCallArg(root, rel, recv, name, chain, n)
		if err != nil {
			errs = append(errs, coq+": "+err.Error())
			return
		}
		fmt.Fprintf(&sb, "Definition %s : Z := %s. (* %s: %s.%s call %s arg %d *)\n", coq, v, rel, recv, name, chain, n)
	}
	// BooleanQuery.initPrimarySearchers: q.mustNots.disjunction(i, options, 1)
	add("must_not_disjunction_min", "query.go", "BooleanQuery", "initPrimarySearchers", "q.mustNots.disjunction", 2)
	// MatchQuery.Searcher (operator Or): booleanQuery.SetMinShould(1)
	add("match_query_min_should", "query.go", "MatchQuery", "Searcher", "booleanQuery.SetMinShould", 0)
	return "Search", sb.String(), errs
}
