#!/bin/sh
# tools/runall.sh [quick|thorough] [ids...] — runs the registered checks one after the other on the
# current tree, prints one line per check; used for the final evidence from a quiet machine.
cd "$(dirname "$0")/.."
tier=${1:-quick}; [ $# -gt 0 ] && shift
ids="$@"
[ -z "$ids" ] && ids=$(python3 -c "
import json; print(' '.join(c['property_id'] for c in json.load(open('MANIFEST.json'))['checks']))")
fail=0
for id in $ids; do
  t0=$(date +%s)
  out=$(./check "$id" "$tier" 2>&1); rc=$?
  t1=$(date +%s)
  echo "$id rc=$rc $((t1-t0))s $(echo "$out" | grep '^check ' | tail -1)"
  echo "$out" | grep '^VIOLATION' 
  [ $rc -ne 0 ] && fail=1
done
exit $fail
