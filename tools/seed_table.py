#!/usr/bin/env python3
"""Regenerates docs/seeded-mutants.md from seeded/*/meta.json."""
import glob, json, os
rows = []
for p in sorted(glob.glob('/verif/seeded/*/meta.json')):
    m = json.load(open(p))
    name = os.path.basename(os.path.dirname(p))
    conf = m.get('confirmation', {})
    res = m.get('check_results', {})
    rows.append((name, m.get('property'), (m.get('title') or '')[:110], (m.get('needs') or '').replace('\n', ' ')[:160],
                 'yes' if conf.get('confirmed') else 'NO', '; '.join('%s %s' % (k, v) for k, v in sorted(res.items()))))
out = ["# Seeded changes (mutants written by independent sub-agents from the property text alone)", "",
       "Each directory `seeded/<name>/` holds `patch.diff`, the demonstration and `meta.json` (what it breaks, what it needs to manifest,",
       "what we ran to confirm it, and which of our checks report it). Confirmation = demo passes at HEAD, patch builds, demo fails with the",
       "patch, the unedited suite passes with the patch (tools/confirm_seed.sh). Check results come from tools/mutcheck.sh.", "",
       "| mutant | property | change | needs | confirmed | our checks |", "|---|---|---|---|---|---|"]
for r in rows:
    out.append("| %s | %s | %s | %s | %s | %s |" % r)
open('/verif/docs/seeded-mutants.md', 'w').write("\n".join(out) + "\n")
print(len(rows), "mutants")
