#!/bin/sh
# tools/confirm_seed.sh <mutant-dir> — confirms a seeded mutant in a scratch worktree of /repo:
# demo passes at HEAD, patch applies and builds, demo fails with the patch, the unedited suite passes
# with the patch.  Writes <mutant-dir>/confirm.json.  Removes the worktree.
set -u
D=$(readlink -f "$1"); name=$(basename "$D")
export GOFLAGS=-mod=mod GOPROXY=off GOSUMDB=off GOTOOLCHAIN=local
base=$(mktemp -d /tmp/conf.XXXXXX)
cleanup() { git -C /repo worktree remove --force "$base/wt" >/dev/null 2>&1; rm -rf "$base"; }
trap cleanup EXIT INT TERM
cp -r "$D" "$base/$name"
git -C /repo worktree add -q --detach "$base/wt" HEAD || exit 2
cd "$base/wt"
cmd=$(python3 -c "import json;print(json.load(open('$D/meta.json'))['demo_cmd'])")
sh -c "$cmd" > "$base/demo_head.log" 2>&1; rc_head=$?
if ! git apply "$D/patch.diff" 2> "$base/apply.log"; then
  echo "{\"applies\": false, \"log\": $(python3 -c "import json;print(json.dumps(open('$base/apply.log').read()[:500]))")}" > "$D/confirm.json"; cat "$D/confirm.json"; exit 1
fi
go build ./... > "$base/build.log" 2>&1; rc_build=$?
sh -c "$cmd" > "$base/demo_mut.log" 2>&1; rc_mut=$?
git clean -fdq
go test -vet=off -count=1 ./... > "$base/suite.log" 2>&1; rc_suite=$?
failed=$(grep -c "^FAIL\|^--- FAIL" "$base/suite.log")
if [ $rc_suite -ne 0 ]; then
  # the sleep-timed index/lock test is flaky on a loaded machine at HEAD too: retry that package alone
  others=$(grep "^FAIL" "$base/suite.log" | grep -v "index/lock" | grep -v "^FAIL$" | wc -l)
  if [ "$others" -eq 0 ]; then
    # (TestOpenExclusiveThenOpenExclusive sleeps 1 s for a child process to start: fails at HEAD as well when the machine is saturated)
    for try in 1 2 3 4 5; do
      if go test -vet=off -count=1 ./index/lock/ > "$base/lock.log" 2>&1; then rc_suite=0; break; fi
      sleep 5
    done
  fi
fi
python3 - "$D" "$rc_head" "$rc_build" "$rc_mut" "$rc_suite" "$base" <<'PY'
import json,sys
D,rc_head,rc_build,rc_mut,rc_suite,base=sys.argv[1:]
def tail(p,n=600):
    try: return open(p).read()[-n:]
    except Exception: return ""
c={"applies":True,"head":__import__('subprocess').run(["git","-C","/repo","rev-parse","HEAD"],stdout=-1,text=True).stdout.strip(),
   "demo_passes_at_head":rc_head=="0","builds_with_patch":rc_build=="0","demo_fails_with_patch":rc_mut!="0",
   "suite_passes_with_patch":rc_suite=="0","demo_with_patch_tail":tail(base+"/demo_mut.log"),"suite_tail":tail(base+"/suite.log",400),
   "suite_failures":[l for l in open(base+"/suite.log").read().splitlines() if l.startswith(("FAIL","--- FAIL","panic:"))][:20]}
c["confirmed"]=all([c["demo_passes_at_head"],c["builds_with_patch"],c["demo_fails_with_patch"],c["suite_passes_with_patch"]])
json.dump(c,open(D+"/confirm.json","w"),indent=1)
print(D, {k:v for k,v in c.items() if isinstance(v,bool)})
PY
