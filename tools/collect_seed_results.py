#!/usr/bin/env python3
"""tools/collect_seed_results.py <logdir> — reads the run logs of tools/mutcheck.sh batches (muts_*.log written by
run_muts.sh: '##### <dir> -> ids' then '== Cxx: CAUGHT|MISSED'), later runs override earlier ones, and imports every
mutant directory into /verif/seeded with its confirmation and check results."""
import glob, os, re, subprocess, sys
logdir = sys.argv[1]
res = {}   # dir -> {check: (verdict, order)}
order = 0
for f in sorted(glob.glob(os.path.join(logdir, 'muts_*.log')), key=os.path.getmtime):
    cur = None
    for line in open(f, errors='replace'):
        m = re.match(r'##### (\S+) -> (.*)', line)
        if m:
            cur = m.group(1); continue
        m = re.search(r'== (C\d+): (CAUGHT|MISSED)', line)
        if m and cur:
            order += 1
            res.setdefault(cur, {})[m.group(1)] = (m.group(2), order, f)
# first-run history: keep MISSED->CAUGHT transitions visible
hist = {}
for f in sorted(glob.glob(os.path.join(logdir, 'muts_*.log')), key=os.path.getmtime):
    cur = None
    for line in open(f, errors='replace'):
        m = re.match(r'##### (\S+) -> (.*)', line)
        if m:
            cur = m.group(1); continue
        m = re.search(r'== (C\d+): (CAUGHT|MISSED)', line)
        if m and cur:
            hist.setdefault((cur, m.group(1)), []).append(m.group(2))
for d in sorted(glob.glob(os.path.join(logdir, 'C*/out-*'))):
    args = []
    for chk, (v, _, _) in sorted(res.get(d, {}).items()):
        h = hist.get((d, chk), [])
        note = v
        if v == 'CAUGHT' and 'MISSED' in h:
            note = 'CAUGHT (after strengthening; first run MISSED)'
        args.append('%s=%s' % (chk, note))
    subprocess.run(['python3', '/verif/tools/import_seed.py', d] + args)
subprocess.run(['python3', '/verif/tools/seed_table.py'])
